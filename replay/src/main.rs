//! Counterexample finder and replay driver (not a decider: the verifiers decide).
//! usage: cao-replay <unit> search <seed> <iterations>
//!        cao-replay <unit> replay <ops...>          (ops as printed by a previous FAIL line)
//! Each unit drives the real data structure and a trivially correct model with the same operation
//! sequence and compares every observable result.  Sequences are short and drawn from key sets
//! crafted to collide and wrap around, which is where the probe-chain bugs live.
use cao_lang::collections::bounded_stack::BoundedStack;
use cao_lang::collections::handle_table::{Handle, HandleTable};
use cao_lang::collections::hash_map::CaoHashMap;
use cao_lang::collections::value_stack::ValueStack;
use cao_lang::prelude::*;
use std::collections::HashMap;

struct Rng(u64);
impl Rng {
    fn next(&mut self) -> u64 {
        self.0 ^= self.0 << 13;
        self.0 ^= self.0 >> 7;
        self.0 ^= self.0 << 17;
        self.0
    }
    fn below(&mut self, n: u64) -> u64 { self.next() % n }
}

type Op = (u8, u64, i64);

static VARIANT: std::sync::atomic::AtomicU64 = std::sync::atomic::AtomicU64::new(0);

fn fail(unit: &str, ops: &[Op], step: usize, what: String) -> ! {
    let s: Vec<String> = ops[..=step].iter().map(|o| format!("{}:{}:{}", o.0, o.1, o.2)).collect();
    let variant = VARIANT.load(std::sync::atomic::Ordering::Relaxed);
    println!("FAIL unit={} variant={} step={} ops={} what={}", unit, variant, step, s.join(","), what);
    std::process::exit(1);
}

// ---------------------------------------------------------------- hash_map (hint API: crafted hashes)
fn run_hash_map(ops: &[Op], init_cap: usize) {
    let mut m: CaoHashMap<u32, i64> = CaoHashMap::with_capacity_in(init_cap, Default::default()).unwrap();
    let mut model: HashMap<u32, i64> = HashMap::new();
    // key k always travels with hint h(k): small hints force collisions and wrap-around
    let hint = |k: u64| -> u64 { 1 + (k % 7) * 0x9E37 + (k / 7) % 3 };
    for (step, &(op, k, v)) in ops.iter().enumerate() {
        let key = k as u32;
        let h = hint(k);
        unsafe {
            match op % 5 {
                0 => {
                    m.insert_with_hint(h, key, v).unwrap();
                    model.insert(key, v);
                }
                1 => {
                    let r = m.remove_with_hint(h, &key);
                    let e = model.remove(&key);
                    if r != e { fail("hash_map", ops, step, format!("remove({key}) = {r:?}, model {e:?}")); }
                }
                2 => {
                    let r = m.get_with_hint(h, &key).copied();
                    let e = model.get(&key).copied();
                    if r != e { fail("hash_map", ops, step, format!("get({key}) = {r:?}, model {e:?}")); }
                }
                3 => {
                    let r = m.contains_with_hint(h, &key);
                    if r != model.contains_key(&key) { fail("hash_map", ops, step, format!("contains({key}) = {r}")); }
                }
                _ => {
                    // safe API with the real hasher
                    let kk = key.wrapping_mul(2654435761) | 0x8000_0000;
                    m.insert(kk, v).unwrap();
                    model.insert(kk, v);
                }
            }
        }
        if m.len() != model.len() { fail("hash_map", ops, step, format!("len {} model {}", m.len(), model.len())); }
        // every model entry is retrievable, iteration yields each entry once
        let mut n = 0;
        for (k2, v2) in m.iter() {
            n += 1;
            if model.get(k2) != Some(v2) { fail("hash_map", ops, step, format!("iter yields ({k2},{v2}) not in model")); }
        }
        if n != model.len() { fail("hash_map", ops, step, format!("iter yields {n} entries, model {}", model.len())); }
        for (k2, v2) in model.iter() {
            let r = if *k2 & 0x8000_0000 != 0 { m.get(k2).copied() } else { unsafe { m.get_with_hint(hint(*k2 as u64), k2).copied() } };
            if r != Some(*v2) { fail("hash_map", ops, step, format!("key {k2} lost: get = {r:?}, model {v2}")); }
        }
    }
}

// ---------------------------------------------------------------- handle_table
fn handle_pool() -> Vec<Handle> {
    // 24 handles: groups that share a home slot under masks 3 / 7 / 15
    let mut by_home: HashMap<u32, Vec<Handle>> = HashMap::new();
    for k in 1u32..4000 {
        let h = Handle::from_u32(k);
        let home = h.value().wrapping_mul(2654435769) & 15;
        let e = by_home.entry(home).or_default();
        if e.len() < 6 { e.push(h); }
    }
    let mut pool = vec![];
    for home in [0u32, 15, 3, 7] { pool.extend(by_home.get(&home).cloned().unwrap_or_default()); }
    pool
}

fn run_handle_table(ops: &[Op], init_cap: usize) {
    let pool = handle_pool();
    let mut t: HandleTable<i64> = HandleTable::with_capacity(init_cap, Default::default()).unwrap();
    let mut model: HashMap<u32, i64> = HashMap::new();
    for (step, &(op, k, v)) in ops.iter().enumerate() {
        let h = pool[(k as usize) % pool.len()];
        match op % 6 {
            0 => { t.insert(h, v).unwrap(); model.insert(h.value(), v); }
            1 => {
                let r = t.remove(h);
                let e = model.remove(&h.value());
                if r != e { fail("handle_table", ops, step, format!("remove({}) = {r:?}, model {e:?}", h.value())); }
            }
            2 => {
                let r = t.get(h).copied();
                let e = model.get(&h.value()).copied();
                if r != e { fail("handle_table", ops, step, format!("get({}) = {r:?}, model {e:?}", h.value())); }
            }
            3 => {
                let r = *t.entry(h).or_insert_with(|| v);
                let e = *model.entry(h.value()).or_insert(v);
                if r != e { fail("handle_table", ops, step, format!("entry({}) = {r}, model {e}", h.value())); }
            }
            4 => {
                if t.contains(h) != model.contains_key(&h.value()) { fail("handle_table", ops, step, format!("contains({})", h.value())); }
            }
            _ => { t.reserve((k % 5) as usize).unwrap(); }
        }
        if t.len() != model.len() { fail("handle_table", ops, step, format!("len {} model {}", t.len(), model.len())); }
        let mut n = 0;
        for (k2, v2) in t.iter() {
            n += 1;
            if model.get(&k2.value()) != Some(v2) { fail("handle_table", ops, step, format!("iter yields ({},{v2}) not in model", k2.value())); }
        }
        if n != model.len() { fail("handle_table", ops, step, format!("iter yields {n} entries, model {}", model.len())); }
        for hh in pool.iter() {
            if t.get(*hh).copied() != model.get(&hh.value()).copied() { fail("handle_table", ops, step, format!("handle {} wrong after step", hh.value())); }
        }
    }
}

// ---------------------------------------------------------------- value_stack
fn run_value_stack(ops: &[Op], cap: usize) {
    let mut s = ValueStack::new(cap);
    let mut model: Vec<i64> = vec![];
    let val = |v: Value| -> Option<i64> { match v { Value::Integer(i) => Some(i), Value::Nil => None, _ => Some(-999) } };
    for (step, &(op, k, v)) in ops.iter().enumerate() {
        let k = k as usize;
        match op % 9 {
            0 => {
                let r = s.push(Value::Integer(v));
                let fits = model.len() + 2 <= cap;
                if r.is_ok() != fits { fail("value_stack", ops, step, format!("push ok={} with len {} cap {}", r.is_ok(), model.len(), cap)); }
                if fits { model.push(v); }
            }
            1 => {
                let r = val(s.pop());
                let e = model.pop();
                if r != e { fail("value_stack", ops, step, format!("pop = {r:?}, model {e:?}")); }
            }
            2 => {
                let r = s.pop_n::<3>();
                for i in 0..3 {
                    let e = model.pop();
                    if val(r[i]) != e { fail("value_stack", ops, step, format!("pop_n[{i}] = {:?}, model {e:?}", val(r[i]))); }
                }
            }
            3 => {
                let off = k % (cap + 1);
                let r = val(s.pop_w_offset(off));
                let e = if model.len() <= off { None } else { model.pop() };
                if r != e { fail("value_stack", ops, step, format!("pop_w_offset({off}) = {r:?}, model {e:?}")); }
            }
            4 => {
                let i = k % (cap + 2);
                let r = s.set(i, Value::Integer(v));
                if i > model.len() { if r.is_ok() { fail("value_stack", ops, step, format!("set({i}) beyond height accepted")); } }
                else if i == model.len() { let fits = model.len() + 2 <= cap; if r.is_ok() != fits { fail("value_stack", ops, step, format!("set at height ok={}", r.is_ok())); } if fits { model.push(v); } }
                else { let old = model[i]; model[i] = v; if r.ok().and_then(val) != Some(old) { fail("value_stack", ops, step, format!("set({i}) did not return the old value")); } }
            }
            5 => {
                let i = k % (cap + 2);
                let r = val(s.get(i));
                let e = model.get(i).copied();
                if r != e { fail("value_stack", ops, step, format!("get({i}) = {r:?}, model {e:?}")); }
            }
            6 => {
                let n = k % (cap + 1);
                let r = val(s.peek_last(n));
                let e = if model.len() > n { Some(model[model.len() - 1 - n]) } else { None };
                if r != e { fail("value_stack", ops, step, format!("peek_last({n}) = {r:?}, model {e:?}")); }
            }
            7 => {
                let i = if model.is_empty() { 0 } else { k % (model.len() + 1) };
                let r = val(s.clear_until(i));
                let e = model.last().copied();
                model.truncate(i);
                if r != e { fail("value_stack", ops, step, format!("clear_until({i}) = {r:?}, model {e:?}")); }
            }
            _ => { s.clear(); model.clear(); }
        }
        if s.len() != model.len() { fail("value_stack", ops, step, format!("len {} model {}", s.len(), model.len())); }
        if val(s.last()) != model.last().copied() { fail("value_stack", ops, step, "last differs".into()); }
        let sl: Vec<Option<i64>> = s.as_slice().iter().map(|v| val(*v)).collect();
        let ml: Vec<Option<i64>> = model.iter().map(|v| Some(*v)).collect();
        if sl != ml { fail("value_stack", ops, step, format!("contents {sl:?} model {ml:?}")); }
    }
}

// ---------------------------------------------------------------- bounded_stack
fn run_bounded_stack(ops: &[Op], cap: usize) {
    use std::cell::Cell;
    use std::rc::Rc;
    struct D(i64, Rc<Cell<i64>>);
    impl Drop for D { fn drop(&mut self) { self.1.set(self.1.get() + 1); } }
    let drops = Rc::new(Cell::new(0i64));
    let mut created = 0i64;
    {
        let mut s: BoundedStack<D> = BoundedStack::new(cap);
        let mut model: Vec<i64> = vec![];
        for (step, &(op, _k, v)) in ops.iter().enumerate() {
            match op % 4 {
                0 => {
                    created += 1;
                    let r = s.push(D(v, drops.clone()));
                    let fits = model.len() < cap;
                    if r.is_ok() != fits { fail("bounded_stack", ops, step, format!("push ok={} len {} cap {}", r.is_ok(), model.len(), cap)); }
                    if fits { model.push(v); }
                }
                1 => {
                    let r = s.pop().map(|d| d.0);
                    let e = model.pop();
                    if r != e { fail("bounded_stack", ops, step, format!("pop = {r:?}, model {e:?}")); }
                }
                2 => {
                    if s.last().map(|d| d.0) != model.last().copied() { fail("bounded_stack", ops, step, "last differs".into()); }
                }
                _ => { s.clear(); model.clear(); }
            }
            if s.len() != model.len() { fail("bounded_stack", ops, step, format!("len {} model {}", s.len(), model.len())); }
            if drops.get() + model.len() as i64 != created { fail("bounded_stack", ops, step, format!("drops {} + live {} != created {}", drops.get(), model.len(), created)); }
        }
    }
    if drops.get() != created { fail("bounded_stack", ops, ops.len().saturating_sub(1), format!("after Drop: drops {} created {}", drops.get(), created)); }
}

// ---------------------------------------------------------------- cao_lang_table
fn run_table(ops: &[Op]) {
    let mut vm = Vm::new(()).unwrap();
    let mut guard = vm.init_table().unwrap();
    let t = guard.as_table_mut().unwrap();
    let mut model: Vec<(i64, i64)> = vec![];   // insertion ordered, integer keys (nil = key -1)
    let key = |k: i64| if k < 0 { Value::Nil } else { Value::Integer(k) };
    for (step, &(op, k, v)) in ops.iter().enumerate() {
        let k = (k % 9) as i64 - 1;
        match op % 6 {
            0 => {
                t.insert(key(k), Value::Integer(v)).unwrap();
                if let Some(e) = model.iter_mut().find(|e| e.0 == k) { e.1 = v } else { model.push((k, v)); }
            }
            1 => {
                let r = t.get(&key(k)).copied();
                let e = model.iter().find(|e| e.0 == k).map(|e| Value::Integer(e.1));
                if r != e { fail("cao_lang_table", ops, step, format!("get({k}) = {r:?}, model {e:?}")); }
            }
            2 => { t.remove(key(k)).unwrap(); model.retain(|e| e.0 != k); }
            3 => {
                t.append(Value::Integer(v)).unwrap();
                let mut idx = model.len() as i64;
                while model.iter().any(|e| e.0 == idx) { idx += 1; }
                model.push((idx, v));
            }
            4 => {
                let r = t.pop().unwrap();
                let e = model.pop().map(|e| Value::Integer(e.1)).unwrap_or(Value::Nil);
                if r != e { fail("cao_lang_table", ops, step, format!("pop = {r:?}, model {e:?}")); }
            }
            _ => {
                let i = (v.unsigned_abs() % 10) as usize;
                let r = t.nth_key(i);
                let e = model.get(i).map(|e| key(e.0)).unwrap_or(Value::Nil);
                if r != e { fail("cao_lang_table", ops, step, format!("nth_key({i}) = {r:?}, model {e:?}")); }
            }
        }
        if t.len() != model.len() { fail("cao_lang_table", ops, step, format!("len {} model {}", t.len(), model.len())); }
        let got: Vec<(Value, Value)> = t.iter().map(|(a, b)| (*a, *b)).collect();
        let want: Vec<(Value, Value)> = model.iter().map(|e| (key(e.0), Value::Integer(e.1))).collect();
        if got != want { fail("cao_lang_table", ops, step, format!("iteration {got:?} model {want:?}")); }
        for kk in -1..8i64 {
            let r = t.get(&key(kk)).copied();
            let e = model.iter().find(|e| e.0 == kk).map(|e| Value::Integer(e.1));
            if r != e { fail("cao_lang_table", ops, step, format!("after step: get({kk}) = {r:?}, model {e:?}")); }
        }
    }
}

// ---------------------------------------------------------------- equality / hashing of heap values
fn run_object_laws(ops: &[Op]) {
    use std::hash::{Hash, Hasher};
    let hash_of = |v: &Value| { let mut h = std::collections::hash_map::DefaultHasher::new(); v.hash(&mut h); h.finish() };
    let mut vm = Vm::new(()).unwrap();
    // two tables with the same entries in the same insertion order but a different growth history
    let mut g1 = vm.init_table().unwrap();
    let mut g2 = vm.init_table().unwrap();
    {
        let t2 = g2.as_table_mut().unwrap();
        for d in 0..24i64 { t2.insert(Value::Integer(1000 + d), Value::Nil).unwrap(); }
        for d in 0..24i64 { t2.remove(Value::Integer(1000 + d)).unwrap(); }
    }
    let mut strings = vec![];
    for (step, &(op, k, v)) in ops.iter().enumerate() {
        let key = if op % 3 == 0 {
            let s1 = vm.init_string(&format!("k{}", k % 5)).unwrap();
            let s2 = vm.init_string(&format!("k{}", k % 5)).unwrap();
            let (a, b) = (Value::Object(s1.into_inner()), Value::Object(s2.into_inner()));
            strings.push((a, b));
            if a != b { fail("object_laws", ops, step, format!("strings with equal text differ")); }
            if hash_of(&a) != hash_of(&b) { fail("object_laws", ops, step, format!("equal strings hash differently")); }
            (a, b)
        } else { (Value::Integer(k as i64), Value::Integer(k as i64)) };
        g1.as_table_mut().unwrap().insert(key.0, Value::Integer(v)).unwrap();
        g2.as_table_mut().unwrap().insert(key.1, Value::Integer(v)).unwrap();
    }
    let a: Value = Value::from(g1);
    let b: Value = Value::from(g2);
    let last = ops.len().saturating_sub(1);
    if a != b { fail("object_laws", ops, last, "tables with the same entries in the same order compare unequal".into()); }
    if (b == a) != (a == b) { fail("object_laws", ops, last, "equality is not symmetric".into()); }
    if hash_of(&a) != hash_of(&b) { fail("object_laws", ops, last, "equal tables hash differently".into()); }
    if a < b || a > b { fail("object_laws", ops, last, "equal tables are ordered".into()); }
    // the same entries inserted in reverse order: whatever `==` says about them, equal must imply equal hashes
    {
        let ints: Vec<(i64, i64)> = { let mut m: Vec<(i64, i64)> = vec![]; for &(op, k2, v2) in ops.iter() { if op % 3 != 0 { if let Some(e) = m.iter_mut().find(|e| e.0 == k2 as i64) { e.1 = v2 } else { m.push((k2 as i64, v2)) } } } m };
        if ints.len() >= 2 {
            let mut g5 = vm.init_table().unwrap();
            for (k2, v2) in ints.iter() { g5.as_table_mut().unwrap().insert(Value::Integer(*k2), Value::Integer(*v2)).unwrap(); }
            let mut g6 = vm.init_table().unwrap();
            for (k2, v2) in ints.iter().rev() { g6.as_table_mut().unwrap().insert(Value::Integer(*k2), Value::Integer(*v2)).unwrap(); }
            let e: Value = Value::from(g5);
            let f: Value = Value::from(g6);
            if e == f && hash_of(&e) != hash_of(&f) { fail("object_laws", ops, last, "tables that compare equal hash differently (same entries, different insertion order)".into()); }
            if (e == f) != (f == e) { fail("object_laws", ops, last, "equality is not symmetric (different insertion order)".into()); }
        }
    }
    // a third table that differs from the first in one value only: whatever `==` says, equal must imply equal hashes
    if let Some(&(_, k, v)) = ops.iter().rev().find(|o| o.0 % 3 != 0) {
        let mut g3 = vm.init_table().unwrap();
        for &(op, k2, v2) in ops.iter() {
            if op % 3 != 0 { g3.as_table_mut().unwrap().insert(Value::Integer(k2 as i64), Value::Integer(v2)).unwrap(); }
        }
        let mut g4 = vm.init_table().unwrap();
        for &(op, k2, v2) in ops.iter() {
            if op % 3 != 0 { g4.as_table_mut().unwrap().insert(Value::Integer(k2 as i64), Value::Integer(v2)).unwrap(); }
        }
        g4.as_table_mut().unwrap().insert(Value::Integer(k as i64), Value::Integer(v + 1000)).unwrap();
        let c: Value = Value::from(g3);
        let d: Value = Value::from(g4);
        if c == d && hash_of(&c) != hash_of(&d) { fail("object_laws", ops, last, "tables that compare equal hash differently (one value differs)".into()); }
        if c == d { fail("object_laws", ops, last, "tables with a different value under the same key compare equal".into()); }
    }
}

fn dispatch(unit: &str, ops: &[Op], variant: u64) {
    VARIANT.store(variant, std::sync::atomic::Ordering::Relaxed);
    match unit {
        "hash_map" => run_hash_map(ops, [0usize, 1, 2, 3, 4, 5, 8][(variant % 7) as usize]),
        "handle_table" => run_handle_table(ops, [0usize, 1, 2, 3, 4, 5, 8, 16][(variant % 8) as usize]),
        "value_stack" => run_value_stack(ops, [1usize, 2, 3, 4, 6][(variant % 5) as usize]),
        "bounded_stack" => run_bounded_stack(ops, [0usize, 1, 2, 3, 5][(variant % 5) as usize]),
        "cao_lang_table" => run_table(ops),
        "object_laws" => run_object_laws(ops),
        _ => { eprintln!("unknown unit {unit}"); std::process::exit(2); }
    }
}

fn main() {
    let args: Vec<String> = std::env::args().collect();
    let unit = args[1].as_str();
    if args[2] == "replay" {
        let variant: u64 = args[3].parse().unwrap();
        let ops: Vec<Op> = args[4].split(',').map(|s| { let p: Vec<&str> = s.split(':').collect(); (p[0].parse().unwrap(), p[1].parse().unwrap(), p[2].parse().unwrap()) }).collect();
        dispatch(unit, &ops, variant);
        println!("OK replayed {} ops without a difference", ops.len());
        return;
    }
    let seed: u64 = args[3].parse().unwrap();
    let iters: u64 = args[4].parse().unwrap();
    let mut rng = Rng(seed.wrapping_mul(0x9E3779B97F4A7C15) | 1);
    for it in 0..iters {
        let len = 1 + rng.below(if it % 4 == 0 { 40 } else { 12 }) as usize;
        let nkeys = 2 + rng.below(22);
        let ops: Vec<Op> = (0..len).map(|_| (rng.below(16) as u8, rng.below(nkeys), (rng.below(100) as i64) - 3)).collect();
        dispatch(unit, &ops, it);
    }
    println!("OK {} sequences without a difference", iters);
}

//! Counterexample finder and replay driver (not a decider: the verifiers decide).
//! usage: cao-replay <unit> search <seed> <iterations>
//!        cao-replay <unit> replay <ops...>          (ops as printed by a previous FAIL line)
//! Each unit drives the real data structure and a trivially correct model with the same operation
//! sequence and compares every observable result.  Sequences are short and drawn from key sets
//! crafted to collide and wrap around, which is where the probe-chain bugs live.
use cao_lang::collections::bounded_stack::BoundedStack;
use cao_lang::collections::handle_table::{Handle, HandleTable};
use cao_lang::collections::hash_map::CaoHashMap;
use cao_lang::collections::value_stack::ValueStack;
use cao_lang::compiler::Module;
use cao_lang::prelude::*;
use std::collections::HashMap;

struct Rng(u64);
impl Rng {
    fn next(&mut self) -> u64 {
        self.0 ^= self.0 << 13;
        self.0 ^= self.0 >> 7;
        self.0 ^= self.0 << 17;
        self.0
    }
    fn below(&mut self, n: u64) -> u64 { self.next() % n }
}

type Op = (u8, u64, i64);

static VARIANT: std::sync::atomic::AtomicU64 = std::sync::atomic::AtomicU64::new(0);

fn fail(unit: &str, ops: &[Op], step: usize, what: String) -> ! {
    let s: Vec<String> = ops[..=step].iter().map(|o| format!("{}:{}:{}", o.0, o.1, o.2)).collect();
    let variant = VARIANT.load(std::sync::atomic::Ordering::Relaxed);
    println!("FAIL unit={} variant={} step={} ops={} what={}", unit, variant, step, s.join(","), what);
    std::process::exit(1);
}

// ---------------------------------------------------------------- hash_map (hint API: crafted hashes)
fn run_hash_map(ops: &[Op], init_cap: usize) {
    let mut m: CaoHashMap<u32, i64> = CaoHashMap::with_capacity_in(init_cap, Default::default()).unwrap();
    let mut model: HashMap<u32, i64> = HashMap::new();
    // key k always travels with hint h(k): small hints force collisions and wrap-around
    let hint = |k: u64| -> u64 { 1 + (k % 7) * 0x9E37 + (k / 7) % 3 };
    for (step, &(op, k, v)) in ops.iter().enumerate() {
        let key = k as u32;
        let h = hint(k);
        unsafe {
            match op % 5 {
                0 => {
                    m.insert_with_hint(h, key, v).unwrap();
                    model.insert(key, v);
                }
                1 => {
                    let r = m.remove_with_hint(h, &key);
                    let e = model.remove(&key);
                    if r != e { fail("hash_map", ops, step, format!("remove({key}) = {r:?}, model {e:?}")); }
                }
                2 => {
                    let r = m.get_with_hint(h, &key).copied();
                    let e = model.get(&key).copied();
                    if r != e { fail("hash_map", ops, step, format!("get({key}) = {r:?}, model {e:?}")); }
                }
                3 => {
                    let r = m.contains_with_hint(h, &key);
                    if r != model.contains_key(&key) { fail("hash_map", ops, step, format!("contains({key}) = {r}")); }
                }
                _ => {
                    // safe API with the real hasher
                    let kk = key.wrapping_mul(2654435761) | 0x8000_0000;
                    m.insert(kk, v).unwrap();
                    model.insert(kk, v);
                }
            }
        }
        if m.len() != model.len() { fail("hash_map", ops, step, format!("len {} model {}", m.len(), model.len())); }
        // every model entry is retrievable, iteration yields each entry once
        let mut n = 0;
        for (k2, v2) in m.iter() {
            n += 1;
            if model.get(k2) != Some(v2) { fail("hash_map", ops, step, format!("iter yields ({k2},{v2}) not in model")); }
        }
        if n != model.len() { fail("hash_map", ops, step, format!("iter yields {n} entries, model {}", model.len())); }
        for (k2, v2) in model.iter() {
            let r = if *k2 & 0x8000_0000 != 0 { m.get(k2).copied() } else { unsafe { m.get_with_hint(hint(*k2 as u64), k2).copied() } };
            if r != Some(*v2) { fail("hash_map", ops, step, format!("key {k2} lost: get = {r:?}, model {v2}")); }
        }
    }
}

// ---------------------------------------------------------------- handle_table
fn handle_pool() -> Vec<Handle> {
    // 24 handles: groups that share a home slot under masks 3 / 7 / 15
    let mut by_home: HashMap<u32, Vec<Handle>> = HashMap::new();
    for k in 1u32..4000 {
        let h = Handle::from_u32(k);
        let home = h.value().wrapping_mul(2654435769) & 15;
        let e = by_home.entry(home).or_default();
        if e.len() < 6 { e.push(h); }
    }
    let mut pool = vec![];
    for home in [0u32, 15, 3, 7] { pool.extend(by_home.get(&home).cloned().unwrap_or_default()); }
    pool
}

fn run_handle_table(ops: &[Op], init_cap: usize) {
    let pool = handle_pool();
    let mut t: HandleTable<i64> = HandleTable::with_capacity(init_cap, Default::default()).unwrap();
    let mut model: HashMap<u32, i64> = HashMap::new();
    for (step, &(op, k, v)) in ops.iter().enumerate() {
        let h = pool[(k as usize) % pool.len()];
        match op % 6 {
            0 => { t.insert(h, v).unwrap(); model.insert(h.value(), v); }
            1 => {
                let r = t.remove(h);
                let e = model.remove(&h.value());
                if r != e { fail("handle_table", ops, step, format!("remove({}) = {r:?}, model {e:?}", h.value())); }
            }
            2 => {
                let r = t.get(h).copied();
                let e = model.get(&h.value()).copied();
                if r != e { fail("handle_table", ops, step, format!("get({}) = {r:?}, model {e:?}", h.value())); }
            }
            3 => {
                let r = *t.entry(h).or_insert_with(|| v);
                let e = *model.entry(h.value()).or_insert(v);
                if r != e { fail("handle_table", ops, step, format!("entry({}) = {r}, model {e}", h.value())); }
            }
            4 => {
                if t.contains(h) != model.contains_key(&h.value()) { fail("handle_table", ops, step, format!("contains({})", h.value())); }
            }
            _ => { t.reserve((k % 5) as usize).unwrap(); }
        }
        if t.len() != model.len() { fail("handle_table", ops, step, format!("len {} model {}", t.len(), model.len())); }
        let mut n = 0;
        for (k2, v2) in t.iter() {
            n += 1;
            if model.get(&k2.value()) != Some(v2) { fail("handle_table", ops, step, format!("iter yields ({},{v2}) not in model", k2.value())); }
        }
        if n != model.len() { fail("handle_table", ops, step, format!("iter yields {n} entries, model {}", model.len())); }
        for hh in pool.iter() {
            if t.get(*hh).copied() != model.get(&hh.value()).copied() { fail("handle_table", ops, step, format!("handle {} wrong after step", hh.value())); }
        }
    }
}

// ---------------------------------------------------------------- value_stack
fn run_value_stack(ops: &[Op], cap: usize) {
    let mut s = ValueStack::new(cap);
    let mut model: Vec<i64> = vec![];
    let val = |v: Value| -> Option<i64> { match v { Value::Integer(i) => Some(i), Value::Nil => None, _ => Some(-999) } };
    for (step, &(op, k, v)) in ops.iter().enumerate() {
        let k = k as usize;
        match op % 9 {
            0 => {
                let r = s.push(Value::Integer(v));
                let fits = model.len() + 2 <= cap;
                if r.is_ok() != fits { fail("value_stack", ops, step, format!("push ok={} with len {} cap {}", r.is_ok(), model.len(), cap)); }
                if fits { model.push(v); }
            }
            1 => {
                let r = val(s.pop());
                let e = model.pop();
                if r != e { fail("value_stack", ops, step, format!("pop = {r:?}, model {e:?}")); }
            }
            2 => {
                let r = s.pop_n::<3>();
                for i in 0..3 {
                    let e = model.pop();
                    if val(r[i]) != e { fail("value_stack", ops, step, format!("pop_n[{i}] = {:?}, model {e:?}", val(r[i]))); }
                }
            }
            3 => {
                let off = k % (cap + 1);
                let r = val(s.pop_w_offset(off));
                let e = if model.len() <= off { None } else { model.pop() };
                if r != e { fail("value_stack", ops, step, format!("pop_w_offset({off}) = {r:?}, model {e:?}")); }
            }
            4 => {
                let i = k % (cap + 2);
                let r = s.set(i, Value::Integer(v));
                if i > model.len() { if r.is_ok() { fail("value_stack", ops, step, format!("set({i}) beyond height accepted")); } }
                else if i == model.len() { let fits = model.len() + 2 <= cap; if r.is_ok() != fits { fail("value_stack", ops, step, format!("set at height ok={}", r.is_ok())); } if fits { model.push(v); } }
                else { let old = model[i]; model[i] = v; if r.ok().and_then(val) != Some(old) { fail("value_stack", ops, step, format!("set({i}) did not return the old value")); } }
            }
            5 => {
                let i = k % (cap + 2);
                let r = val(s.get(i));
                let e = model.get(i).copied();
                if r != e { fail("value_stack", ops, step, format!("get({i}) = {r:?}, model {e:?}")); }
            }
            6 => {
                let n = k % (cap + 1);
                let r = val(s.peek_last(n));
                let e = if model.len() > n { Some(model[model.len() - 1 - n]) } else { None };
                if r != e { fail("value_stack", ops, step, format!("peek_last({n}) = {r:?}, model {e:?}")); }
            }
            7 => {
                let i = if model.is_empty() { 0 } else { k % (model.len() + 1) };
                let r = val(s.clear_until(i));
                let e = model.last().copied();
                model.truncate(i);
                if r != e { fail("value_stack", ops, step, format!("clear_until({i}) = {r:?}, model {e:?}")); }
            }
            _ => { s.clear(); model.clear(); }
        }
        if s.len() != model.len() { fail("value_stack", ops, step, format!("len {} model {}", s.len(), model.len())); }
        if val(s.last()) != model.last().copied() { fail("value_stack", ops, step, "last differs".into()); }
        let sl: Vec<Option<i64>> = s.as_slice().iter().map(|v| val(*v)).collect();
        let ml: Vec<Option<i64>> = model.iter().map(|v| Some(*v)).collect();
        if sl != ml { fail("value_stack", ops, step, format!("contents {sl:?} model {ml:?}")); }
    }
}

// ---------------------------------------------------------------- bounded_stack
fn run_bounded_stack(ops: &[Op], cap: usize) {
    use std::cell::Cell;
    use std::rc::Rc;
    struct D(i64, Rc<Cell<i64>>);
    impl Drop for D { fn drop(&mut self) { self.1.set(self.1.get() + 1); } }
    let drops = Rc::new(Cell::new(0i64));
    let mut created = 0i64;
    {
        let mut s: BoundedStack<D> = BoundedStack::new(cap);
        let mut model: Vec<i64> = vec![];
        for (step, &(op, _k, v)) in ops.iter().enumerate() {
            match op % 4 {
                0 => {
                    created += 1;
                    let r = s.push(D(v, drops.clone()));
                    let fits = model.len() < cap;
                    if r.is_ok() != fits { fail("bounded_stack", ops, step, format!("push ok={} len {} cap {}", r.is_ok(), model.len(), cap)); }
                    if fits { model.push(v); }
                }
                1 => {
                    let r = s.pop().map(|d| d.0);
                    let e = model.pop();
                    if r != e { fail("bounded_stack", ops, step, format!("pop = {r:?}, model {e:?}")); }
                }
                2 => {
                    if s.last().map(|d| d.0) != model.last().copied() { fail("bounded_stack", ops, step, "last differs".into()); }
                }
                _ => { s.clear(); model.clear(); }
            }
            if s.len() != model.len() { fail("bounded_stack", ops, step, format!("len {} model {}", s.len(), model.len())); }
            if drops.get() + model.len() as i64 != created { fail("bounded_stack", ops, step, format!("drops {} + live {} != created {}", drops.get(), model.len(), created)); }
        }
    }
    if drops.get() != created { fail("bounded_stack", ops, ops.len().saturating_sub(1), format!("after Drop: drops {} created {}", drops.get(), created)); }
}

// ---------------------------------------------------------------- cao_lang_table
fn run_table(ops: &[Op]) {
    let mut vm = Vm::new(()).unwrap();
    let mut guard = vm.init_table().unwrap();
    let t = guard.as_table_mut().unwrap();
    let mut model: Vec<(i64, i64)> = vec![];   // insertion ordered, integer keys (nil = key -1)
    let key = |k: i64| if k < 0 { Value::Nil } else { Value::Integer(k) };
    for (step, &(op, k, v)) in ops.iter().enumerate() {
        let k = (k % 9) as i64 - 1;
        match op % 6 {
            0 => {
                t.insert(key(k), Value::Integer(v)).unwrap();
                if let Some(e) = model.iter_mut().find(|e| e.0 == k) { e.1 = v } else { model.push((k, v)); }
            }
            1 => {
                let r = t.get(&key(k)).copied();
                let e = model.iter().find(|e| e.0 == k).map(|e| Value::Integer(e.1));
                if r != e { fail("cao_lang_table", ops, step, format!("get({k}) = {r:?}, model {e:?}")); }
            }
            2 => { t.remove(key(k)).unwrap(); model.retain(|e| e.0 != k); }
            3 => {
                t.append(Value::Integer(v)).unwrap();
                let mut idx = model.len() as i64;
                while model.iter().any(|e| e.0 == idx) { idx += 1; }
                model.push((idx, v));
            }
            4 => {
                let r = t.pop().unwrap();
                let e = model.pop().map(|e| Value::Integer(e.1)).unwrap_or(Value::Nil);
                if r != e { fail("cao_lang_table", ops, step, format!("pop = {r:?}, model {e:?}")); }
            }
            _ => {
                let i = (v.unsigned_abs() % 10) as usize;
                let r = t.nth_key(i);
                let e = model.get(i).map(|e| key(e.0)).unwrap_or(Value::Nil);
                if r != e { fail("cao_lang_table", ops, step, format!("nth_key({i}) = {r:?}, model {e:?}")); }
            }
        }
        if t.len() != model.len() { fail("cao_lang_table", ops, step, format!("len {} model {}", t.len(), model.len())); }
        let got: Vec<(Value, Value)> = t.iter().map(|(a, b)| (*a, *b)).collect();
        let want: Vec<(Value, Value)> = model.iter().map(|e| (key(e.0), Value::Integer(e.1))).collect();
        if got != want { fail("cao_lang_table", ops, step, format!("iteration {got:?} model {want:?}")); }
        for kk in -1..8i64 {
            let r = t.get(&key(kk)).copied();
            let e = model.iter().find(|e| e.0 == kk).map(|e| Value::Integer(e.1));
            if r != e { fail("cao_lang_table", ops, step, format!("after step: get({kk}) = {r:?}, model {e:?}")); }
        }
    }
}

// ---------------------------------------------------------------- equality / hashing of heap values
fn run_object_laws(ops: &[Op]) {
    use std::hash::{Hash, Hasher};
    let hash_of = |v: &Value| { let mut h = std::collections::hash_map::DefaultHasher::new(); v.hash(&mut h); h.finish() };
    let mut vm = Vm::new(()).unwrap();
    // two tables with the same entries in the same insertion order but a different growth history
    let mut g1 = vm.init_table().unwrap();
    let mut g2 = vm.init_table().unwrap();
    {
        let t2 = g2.as_table_mut().unwrap();
        for d in 0..24i64 { t2.insert(Value::Integer(1000 + d), Value::Nil).unwrap(); }
        for d in 0..24i64 { t2.remove(Value::Integer(1000 + d)).unwrap(); }
    }
    let mut strings = vec![];
    for (step, &(op, k, v)) in ops.iter().enumerate() {
        let key = if op % 3 == 0 {
            let s1 = vm.init_string(&format!("k{}", k % 5)).unwrap();
            let s2 = vm.init_string(&format!("k{}", k % 5)).unwrap();
            let (a, b) = (Value::Object(s1.into_inner()), Value::Object(s2.into_inner()));
            strings.push((a, b));
            if a != b { fail("object_laws", ops, step, format!("strings with equal text differ")); }
            if hash_of(&a) != hash_of(&b) { fail("object_laws", ops, step, format!("equal strings hash differently")); }
            (a, b)
        } else { (Value::Integer(k as i64), Value::Integer(k as i64)) };
        g1.as_table_mut().unwrap().insert(key.0, Value::Integer(v)).unwrap();
        g2.as_table_mut().unwrap().insert(key.1, Value::Integer(v)).unwrap();
    }
    let a: Value = Value::from(g1);
    let b: Value = Value::from(g2);
    let last = ops.len().saturating_sub(1);
    if a != b { fail("object_laws", ops, last, "tables with the same entries in the same order compare unequal".into()); }
    if (b == a) != (a == b) { fail("object_laws", ops, last, "equality is not symmetric".into()); }
    if hash_of(&a) != hash_of(&b) { fail("object_laws", ops, last, "equal tables hash differently".into()); }
    if a < b || a > b { fail("object_laws", ops, last, "equal tables are ordered".into()); }
    // the same entries inserted in reverse order: whatever `==` says about them, equal must imply equal hashes
    {
        let ints: Vec<(i64, i64)> = { let mut m: Vec<(i64, i64)> = vec![]; for &(op, k2, v2) in ops.iter() { if op % 3 != 0 { if let Some(e) = m.iter_mut().find(|e| e.0 == k2 as i64) { e.1 = v2 } else { m.push((k2 as i64, v2)) } } } m };
        if ints.len() >= 2 {
            let mut g5 = vm.init_table().unwrap();
            for (k2, v2) in ints.iter() { g5.as_table_mut().unwrap().insert(Value::Integer(*k2), Value::Integer(*v2)).unwrap(); }
            let mut g6 = vm.init_table().unwrap();
            for (k2, v2) in ints.iter().rev() { g6.as_table_mut().unwrap().insert(Value::Integer(*k2), Value::Integer(*v2)).unwrap(); }
            let e: Value = Value::from(g5);
            let f: Value = Value::from(g6);
            if e == f && hash_of(&e) != hash_of(&f) { fail("object_laws", ops, last, "tables that compare equal hash differently (same entries, different insertion order)".into()); }
            if (e == f) != (f == e) { fail("object_laws", ops, last, "equality is not symmetric (different insertion order)".into()); }
        }
    }
    // a third table that differs from the first in one value only: whatever `==` says, equal must imply equal hashes
    if let Some(&(_, k, v)) = ops.iter().rev().find(|o| o.0 % 3 != 0) {
        let mut g3 = vm.init_table().unwrap();
        for &(op, k2, v2) in ops.iter() {
            if op % 3 != 0 { g3.as_table_mut().unwrap().insert(Value::Integer(k2 as i64), Value::Integer(v2)).unwrap(); }
        }
        let mut g4 = vm.init_table().unwrap();
        for &(op, k2, v2) in ops.iter() {
            if op % 3 != 0 { g4.as_table_mut().unwrap().insert(Value::Integer(k2 as i64), Value::Integer(v2)).unwrap(); }
        }
        g4.as_table_mut().unwrap().insert(Value::Integer(k as i64), Value::Integer(v + 1000)).unwrap();
        let c: Value = Value::from(g3);
        let d: Value = Value::from(g4);
        if c == d && hash_of(&c) != hash_of(&d) { fail("object_laws", ops, last, "tables that compare equal hash differently (one value differs)".into()); }
        if c == d { fail("object_laws", ops, last, "tables with a different value under the same key compare equal".into()); }
    }
}


// ---------------------------------------------------------------- name resolution (C08): module trees
// The ops build a module tree, pick a caller function and a call name; the real compiler + VM are compared with
// the lookup order the property documents: absolute dotted path, then the caller's own module, then the caller
// module's imports (function import, then module-prefix import; leading `super.` segments walk up).
// Every function returns its own id, so the function that ran is observable.
#[derive(Default, Clone)]
struct MTree { fns: Vec<(String, i64)>, subs: Vec<(String, MTree)>, imports: Vec<String> }

const FN_NAMES: [&str; 4] = ["f", "g", "h", "xsuper"];
const MOD_NAMES: [&str; 4] = ["a", "b", "xsuper", "f"];
const ODD_NAMES: [&str; 6] = ["", "a.b", "super", "f g", "std", "a-b"];

fn mt_at<'a>(root: &'a mut MTree, path: &[usize]) -> &'a mut MTree {
    let mut m = root;
    for i in path { m = &mut m.subs[*i].1; }
    m
}
fn seg(k: u64) -> &'static str { let k = k as usize % 7; if k < 4 { MOD_NAMES[k] } else { FN_NAMES[k - 4] } }
fn path_str(k: u64, n: u64) -> String {
    let mut k = k; let mut out = Vec::new();
    for _ in 0..n { out.push(seg(k)); k /= 7; }
    out.join(".")
}
fn name_valid(n: &str) -> bool { !n.is_empty() && n != "super" && n.chars().all(|c| c.is_alphanumeric() || c == '_') }

struct Flat { table: HashMap<String, i64> }
fn mt_check(m: &MTree, ns: &mut Vec<String>, flat: &mut Flat, is_root: bool) -> Result<(), String> {
    // duplicate module names (the root also holds the injected `std`)
    let mut seen = std::collections::HashSet::new();
    if is_root { seen.insert("std".to_string()); }
    for (n, _) in &m.subs { if !seen.insert(n.clone()) { return Err(format!("duplicate module {n}")); } }
    // imports: `x.y.name`, last segments pairwise different
    let mut keys = std::collections::HashSet::new();
    for i in &m.imports {
        match i.rsplit_once('.') { None => return Err(format!("bad import {i}")), Some((_, k)) => if !keys.insert(k.to_string()) { return Err(format!("ambiguous import {i}")); } }
    }
    for (n, id) in &m.fns {
        if !name_valid(n) { return Err(format!("bad function name {n:?}")); }
        let full = if ns.is_empty() { n.clone() } else { format!("{}.{}", ns.join("."), n) };
        if flat.table.insert(full.clone(), *id).is_some() { return Err(format!("duplicate function {full}")); }
    }
    for (n, sub) in &m.subs {
        if !name_valid(n) { return Err(format!("bad module name {n:?}")); }
        ns.push(n.clone());
        mt_check(sub, ns, flat, false)?;
        ns.pop();
    }
    Ok(())
}
/// leading `super.` segments of an import and the rest
fn strip_supers(alias: &str) -> (usize, &str) {
    let mut d = 0; let mut rest = alias;
    while let Some(r) = rest.strip_prefix("super.") { d += 1; rest = r; }
    (d, rest)
}
fn mt_resolve(flat: &Flat, ns: &[String], imports: &[String], name: &str) -> Result<i64, String> {
    let dotted = |ns: &[String], n: &str| if ns.is_empty() { n.to_string() } else { format!("{}.{}", ns.join("."), n) };
    if let Some(id) = flat.table.get(name) { return Ok(*id); }
    if let Some(id) = flat.table.get(&dotted(ns, name)) { return Ok(*id); }
    let import_for = |key: &str| imports.iter().find(|i| i.rsplit_once('.').map(|x| x.1) == Some(key));
    if let Some(alias) = import_for(name) {
        let (d, rest) = strip_supers(alias);
        if d > ns.len() { return Err("too many supers".into()); }
        if let Some(id) = flat.table.get(&dotted(&ns[..ns.len() - d], rest)) { return Ok(*id); }
    }
    if let Some((prefix, suffix)) = name.split_once('.') {
        if let Some(alias) = import_for(prefix) {
            let (d, rest) = strip_supers(alias);
            if d > ns.len() { return Err("too many supers".into()); }
            if let Some(id) = flat.table.get(&dotted(&ns[..ns.len() - d], &format!("{rest}.{suffix}"))) { return Ok(*id); }
        }
    }
    Err(format!("{name} resolves to nothing"))
}
fn mt_to_module(m: &MTree, bodies: &HashMap<i64, Card>) -> Module {
    Module {
        imports: m.imports.clone(),
        functions: m.fns.iter().map(|(n, id)| {
            let body = bodies.get(id).cloned().unwrap_or_else(|| Card::return_card(Card::scalar_int(*id)));
            (n.clone(), Function::default().with_cards(vec![body]))
        }).collect(),
        submodules: m.subs.iter().map(|(n, s)| (n.clone(), mt_to_module(s, bodies))).collect(),
    }
}
fn run_name_resolution(ops: &[Op], odd_names: bool) {
    let last = ops.len() - 1;
    let mut root = MTree::default();
    root.fns.push(("main".into(), 1000));
    let mut path: Vec<usize> = vec![];
    let mut next_id = 1i64;
    // caller = (module path, function index); None = main
    let mut caller: Option<(Vec<usize>, usize)> = None;
    let mut call_name = String::from("f");
    // 0: call_name as generated; 1: the last segment of one of the caller module's imports; 2: that segment . another
    let mut call_mode = 0u8;
    let mut call_k = 0u64;
    for o in ops {
        let code = if odd_names { o.0 % 8 } else { o.0 % 6 };
        match code {
            0 => { let m = mt_at(&mut root, &path); m.fns.push((FN_NAMES[o.1 as usize % 4].into(), next_id)); next_id += 1; }
            1 => { let m = mt_at(&mut root, &path); if m.subs.len() < 4 && path.len() < 4 { m.subs.push((MOD_NAMES[o.1 as usize % 4].into(), MTree::default())); path.push(m.subs.len() - 1); } }
            2 => { path.pop(); }
            3 => {
                let supers = [0usize, 0, 1, 1, 2, 3][(o.1 % 6) as usize];
                let body = if o.2 < 0 { seg(o.1 / 4).to_string() } else { path_str(o.1 / 4, 1 + (o.2 as u64 % 2)) };
                let mut imp = if o.2 < 0 && supers == 0 { body } else { format!("{}{}", "super.".repeat(supers), body) };
                if o.2 >= 40 {
                    // an import that reaches a function (or its module) that exists, relative to the current module
                    let mut all: Vec<Vec<String>> = vec![];
                    fn walk(m: &MTree, ns: &mut Vec<String>, all: &mut Vec<Vec<String>>) {
                        for (n, _) in &m.fns { let mut p = ns.clone(); p.push(n.clone()); all.push(p); }
                        for (n, s) in &m.subs { ns.push(n.clone()); walk(s, ns, all); ns.pop(); }
                    }
                    walk(&root, &mut vec![], &mut all);
                    let mut cur: Vec<String> = vec![]; { let mut m = &root; for i in &path { cur.push(m.subs[*i].0.clone()); m = &m.subs[*i].1; } }
                    let mut target = all[(o.1 / 6) as usize % all.len()].clone();
                    if o.2 >= 70 && target.len() > 1 { target.pop(); }            // import the module, not the function
                    let common = cur.iter().zip(target.iter()).take_while(|(a, b)| a == b).count().min(target.len() - 1);
                    let ups = cur.len() - common + if o.2 % 10 == 9 { 1 } else { 0 };
                    imp = format!("{}{}", "super.".repeat(ups), target[common..].join("."));
                }
                mt_at(&mut root, &path).imports.push(imp);
            }
            4 => { let m = mt_at(&mut root, &path); if !m.fns.is_empty() && !(path.is_empty() && m.fns.len() == 1) { caller = Some((path.clone(), m.fns.len() - 1)); } }
            5 => {
                call_mode = if o.2 < 30 { 0 } else if o.2 < 65 { 1 } else { 2 };
                call_k = o.1;
                call_name = path_str(o.1, 1 + (o.2.unsigned_abs() % 3));
            }
            6 => { let m = mt_at(&mut root, &path); m.fns.push((ODD_NAMES[o.1 as usize % 6].into(), next_id)); next_id += 1; }
            _ => { let m = mt_at(&mut root, &path); if m.subs.len() < 4 && path.len() < 4 { m.subs.push((ODD_NAMES[o.1 as usize % 6].into(), MTree::default())); path.push(m.subs.len() - 1); } }
        }
    }
    // ---- the reference answer
    let mut flat = Flat { table: HashMap::new() };
    let checked = mt_check(&root, &mut vec![], &mut flat, true);
    let (caller_ns, caller_id, caller_imports): (Vec<String>, i64, Vec<String>) = match &caller {
        None => (vec![], 1000, root.imports.clone()),
        Some((p, fi)) => {
            let mut ns = vec![]; let mut m = &root;
            for i in p { ns.push(m.subs[*i].0.clone()); m = &m.subs[*i].1; }
            (ns, m.fns[*fi].1, m.imports.clone())
        }
    };
    if call_mode > 0 && !caller_imports.is_empty() {
        // mostly the import added last (the targeted one), otherwise any
        let imp = if call_k % 4 != 0 { caller_imports.last().unwrap() } else { &caller_imports[(call_k as usize / 4) % caller_imports.len()] };
        let last = imp.rsplit('.').next().unwrap_or("");
        call_name = if call_mode == 1 { last.to_string() } else { format!("{}.{}", last, seg(call_k / 3)) };
    }
    let expected: Result<i64, String> = match &checked {
        Err(e) => Err(e.clone()),
        Ok(()) => mt_resolve(&flat, &caller_ns, &caller_imports, &call_name),
    };
    // ---- the real compiler and VM
    let mut bodies = HashMap::new();
    if caller_id == 1000 {
        bodies.insert(1000, Card::set_global_var("g", Card::call_function(call_name.clone(), vec![])));
    } else {
        let (p, fi) = caller.clone().unwrap();
        let mut m = &root; for i in &p { m = &m.subs[*i].1; }
        let caller_path = if caller_ns.is_empty() { m.fns[fi].0.clone() } else { format!("{}.{}", caller_ns.join("."), m.fns[fi].0) };
        bodies.insert(1000, Card::set_global_var("g", Card::call_function(caller_path, vec![])));
        bodies.insert(caller_id, Card::return_card(Card::call_function(call_name.clone(), vec![])));
    }
    let module = mt_to_module(&root, &bodies);
    let compiled = std::panic::catch_unwind(|| compile(module, None));
    let describe = || format!("call {:?} from {} (namespace {:?}, imports {:?})", call_name, if caller_id == 1000 { "main".to_string() } else { format!("function #{caller_id}") }, caller_ns, caller_imports);
    let compiled = match compiled {
        Err(_) => fail("name_resolution", ops, last, format!("the compiler panicked; expected {:?}; {}", expected, describe())),
        Ok(c) => c,
    };
    match (&expected, compiled) {
        (Err(_), Err(_)) => {}
        (Err(e), Ok(_)) => fail("name_resolution", ops, last, format!("compiled, but must be a compilation error: {e}; {}", describe())),
        (Ok(id), Err(e)) => fail("name_resolution", ops, last, format!("compilation error {:?}, but the call designates exactly function #{id}; {}", e.payload, describe())),
        (Ok(id), Ok(program)) => {
            // a call that designates its own caller (or main) recurses forever: only the compile result is compared
            if *id == caller_id || *id == 1000 { return; }
            let mut vm = Vm::new(()).unwrap().with_max_iter(10_000);
            if let Err(e) = vm.run(&program) { fail("name_resolution", ops, last, format!("run failed with {:?}, expected function #{id} to run; {}", e.payload, describe())); }
            let g = vm.read_var_by_name("g", &program.variables);
            if !matches!(g, Some(Value::Integer(x)) if x == *id) {
                fail("name_resolution", ops, last, format!("the call ran a function returning {:?}, the lookup order designates function #{id}; {}", g, describe()));
            }
        }
    }
}

// ---------------------------------------------------------------- label collision (C08, known finding)
// The label table of a compiled program is keyed by 32-bit handles shared by cards (CardIndex::as_handle) and
// functions (Handle::from_u64(position)).  ops = [(0, f, i), (1, j, p)]: function number f of the root module gets a
// composite card at [i] whose child [j] returns 7777; main calls function number p, which returns p.
fn run_label_collision(ops: &[Op]) {
    let (f, i) = (ops[0].1 as usize, ops[0].2 as usize);
    let (j, p) = (ops[1].1 as usize, ops[1].2 as usize);
    let n = f.max(p) + 1;
    let mut functions = vec![("main".to_string(), Function::default().with_cards(vec![Card::set_global_var("g", Card::call_function(format!("fn_{p}"), vec![]))]))];
    for k in 1..n {
        let body = if k == f {
            let mut inner: Vec<Card> = (0..j).map(|_| CardBody::ScalarNil.into()).collect();
            inner.push(Card::return_card(Card::scalar_int(7777)));
            let mut cards: Vec<Card> = (0..i).map(|_| CardBody::ScalarNil.into()).collect();
            cards.push(Card::composite_card("c", inner));
            cards
        } else {
            vec![Card::return_card(Card::scalar_int(k as i64))]
        };
        functions.push((format!("fn_{k}"), Function::default().with_cards(body)));
    }
    let module = Module { functions, ..Default::default() };
    let program = match compile(module, None) { Ok(p) => p, Err(e) => { println!("OK (does not compile: {:?})", e.payload); return; } };
    let mut vm = Vm::new(()).unwrap().with_max_iter(100_000);
    let r = vm.run(&program);
    let g = vm.read_var_by_name("g", &program.variables);
    if r.is_err() || !matches!(g, Some(Value::Integer(x)) if x == p as i64) {
        fail("label_collision", ops, 1, format!("main calls fn_{p} (which returns {p}) and gets {:?} (run: {:?}): the label of card [{i},{j}] of fn_{f} replaced the label of fn_{p}", g, r.map(|_| ())));
    }
}
/// enumerate small programs for a card label that equals the label of an earlier function
fn search_label_collision() {
    use cao_lang::compiler::CardIndex;
    for f in 1..48usize {
        let fh: Vec<(usize, Handle)> = (1..=f).map(|p| (p, Handle::from_u64(p as u64))).collect();
        for i in 0..1600usize {
            let base = CardIndex::new(f, i);
            for j in 0..1600usize {
                let h = base.clone().with_sub_index(j).as_handle();
                for (p, ph) in &fh {
                    if *ph == h { run_label_collision(&[(0, f as u64, i as i64), (1, j as u64, *p as i64)]); }
                }
            }
        }
    }
}

// ---------------------------------------------------------------- error traces (C15, run-time clause)
// ops[0] = (_, depth, pre): `depth` nested static calls main -> f1 -> .. -> f_depth, `pre` harmless cards before the
// interesting card of every function; every further op wraps the failing card (a call of a native function that does
// not exist) in one more parent card.  The error's trace must start at the failing card and continue with the call
// cards from the innermost to the outermost.
fn run_error_trace(ops: &[Op]) {
    let last = ops.len() - 1;
    let depth = (ops[0].1 % 4) as usize;
    let pre = (ops[0].2.unsigned_abs() % 4) as usize;
    if ops[0].0 % 4 == 3 {
        // unbounded direct recursion through one call card: main -> f1 -> f1 -> ..; the run ends in CallStackOverflow and
        // every active call must appear in the trace
        let functions = vec![
            ("main".to_string(), Function::default().with_cards(vec![Card::call_function("f1", vec![])])),
            ("f1".to_string(), Function::default().with_cards({ let mut c: Vec<Card> = (0..pre).map(|i| Card::set_global_var("p", Card::scalar_int(i as i64))).collect(); c.push(Card::call_function("f1", vec![])); c })),
        ];
        let module = Module { functions, ..Default::default() };
        let program = compile(module.clone(), None).unwrap();
        let mut vm = Vm::new(()).unwrap().with_max_iter(1_000_000);
        let err = match vm.run(&program) { Err(e) => e, Ok(_) => fail("error_trace", ops, last, "unbounded recursion ran to completion".into()) };
        let calls = err.trace.iter().filter(|t| module.get_card(&t.index).map(|c| matches!(&c.body, CardBody::Call(j) if j.function_name == "f1")).unwrap_or(false)).count();
        if calls < 32 { fail("error_trace", ops, last, format!("{:?} after unbounded recursion: the trace names only {calls} call cards of the active chain ({} entries)", err.payload, err.trace.len())); }
        return;
    }
    if ops[0].0 % 4 == 2 {
        // a timeout that hits the conditional jump of a control-flow card must be traced to that card, not to its body
        let kind = ops[0].1 % 4;
        let ctl: Card = match kind {
            0 => CardBody::While(Box::new([Card::scalar_int(1), Card::scalar_int(2)])).into(),
            1 => CardBody::IfTrue(Box::new([Card::scalar_int(1), Card::scalar_int(2)])).into(),
            2 => CardBody::IfFalse(Box::new([Card::scalar_int(0), Card::scalar_int(2)])).into(),
            _ => CardBody::IfElse(Box::new([Card::scalar_int(1), Card::scalar_int(2), Card::scalar_int(3)])).into(),
        };
        let mut cards: Vec<Card> = (0..pre).map(|i| Card::set_global_var("p", Card::scalar_int(i as i64))).collect();
        cards.push(ctl);
        let module = Module { functions: vec![("main".to_string(), Function::default().with_cards(cards))], ..Default::default() };
        let program = compile(module.clone(), None).unwrap();
        // every `set_global p i` card is two instructions, the condition one more: the next one is the conditional jump
        let mut vm = Vm::new(()).unwrap().with_max_iter(2 * pre as u64 + 1);
        let err = match vm.run(&program) { Err(e) => e, Ok(_) => fail("error_trace", ops, last, "the budget was not exhausted".into()) };
        let card = err.trace.first().and_then(|t| module.get_card(&t.index).ok());
        let ok = match (kind, card.map(|c| &c.body)) { (0, Some(CardBody::While(_))) | (1, Some(CardBody::IfTrue(_))) | (2, Some(CardBody::IfFalse(_))) | (3, Some(CardBody::IfElse(_))) => true, _ => false };
        if !ok { fail("error_trace", ops, last, format!("{:?} at the conditional jump of control card kind {kind} (after {pre} cards) is traced to `{}` {:?}", err.payload, card.map(|c| c.name()).unwrap_or("<nothing>"), err.trace.first().map(|t| t.index.card_index.indices.to_vec()))); }
        return;
    }
    let mut failing = Card::call_native("no_such_native_function", vec![]);
    for o in &ops[1..] {
        let pad = |n: u64| -> Vec<Card> { (0..n).map(|i| Card::scalar_int(i as i64)).collect() };
        failing = match o.0 % 11 {
            0 => Card::set_global_var("w", failing),
            1 => Card::return_card(failing),
            2 => { let mut v: Vec<Card> = (0..(o.1 % 3)).map(|_| CardBody::ScalarNil.into()).collect(); v.push(failing); Card::composite_card("c", v) }
            3 => Card::repeat(failing, None, Card::scalar_int(1)),
            4 => Card::repeat(Card::scalar_int(1), None, failing),
            5 => Card::dynamic_call(failing, pad(o.1 % 3)),
            6 => { let mut v = pad(o.1 % 3); v.push(failing); Card::dynamic_call(Card::scalar_int(0), v) }
            7 => CardBody::IfTrue(Box::new([Card::scalar_int(1), failing])).into(),
            8 => { let mut v = pad(o.1 % 3); v.push(failing); CardBody::Array(v).into() }
            9 => CardBody::Add(Box::new([Card::scalar_int(1), failing])).into(),
            _ => CardBody::IfElse(Box::new([Card::scalar_int(0), Card::scalar_int(1), failing])).into(),
        };
    }
    let pre_cards = |n: usize| -> Vec<Card> { (0..n).map(|i| Card::set_global_var("p", Card::scalar_int(i as i64))).collect() };
    let mut functions = vec![];
    for k in 0..=depth {
        let name = if k == 0 { "main".to_string() } else { format!("f{k}") };
        let mut cards = pre_cards(pre);
        if k == depth { cards.push(failing.clone()); } else { cards.push(Card::call_function(format!("f{}", k + 1), vec![])); }
        cards.push(Card::set_global_var("after", Card::scalar_int(1)));
        functions.push((name, Function::default().with_cards(cards)));
    }
    let module = Module { functions, ..Default::default() };
    let program = match compile(module.clone(), None) { Ok(p) => p, Err(e) => fail("error_trace", ops, last, format!("does not compile: {:?}", e.payload)) };
    let mut vm = Vm::new(()).unwrap().with_max_iter(10_000);
    let err = match vm.run(&program) { Err(e) => e, Ok(_) => fail("error_trace", ops, last, "the run succeeded although it calls a native function that does not exist".into()) };
    let name_of = |i: usize| -> String { err.trace.get(i).and_then(|t| module.get_card(&t.index).ok()).map(|c| format!("{} {:?}", c.name(), err.trace[i].index.card_index.indices.as_slice())).unwrap_or_else(|| "<nothing>".into()) };
    let first_ok = err.trace.first().and_then(|t| module.get_card(&t.index).ok()).map(|c| matches!(c.body, CardBody::CallNative(_))).unwrap_or(false);
    if !first_ok { fail("error_trace", ops, last, format!("trace[0] resolves to `{}`, not to the failing CallNative card (depth {depth}, {} parents)", name_of(0), ops.len() - 1)); }
    for i in 1..=depth {
        let want = format!("f{}", depth - i + 1);
        let ok = err.trace.get(i).and_then(|t| module.get_card(&t.index).ok()).map(|c| matches!(&c.body, CardBody::Call(j) if j.function_name == want)).unwrap_or(false);
        if !ok { fail("error_trace", ops, last, format!("trace[{i}] resolves to `{}`, not to the card that calls {want}", name_of(i))); }
    }
}

// ---------------------------------------------------------------- decode walk (C10)
// ops build a card tree out of every card kind; the compiled program is walked front to back by the public
// disassembler (which steps by Instruction::span()).  Every instruction the compiler emitted through
// push_instruction has a trace entry keyed by its address: each such address must be an instruction start of the
// walk, and the walk must end exactly at the end of the bytecode with the final Exit.
fn build_card(ops: &[Op], pos: &mut usize, depth: usize) -> Card {
    let o = if *pos < ops.len() { ops[*pos] } else { (0, 0, 0) };
    *pos += 1;
    let leaf = depth >= 3 || *pos >= ops.len();
    let mut sub = |pos: &mut usize| build_card(ops, pos, depth + 1);
    if leaf {
        return match o.0 % 8 {
            0 => Card::scalar_int(o.2),
            1 => Card::string_card(format!("s{}", o.1)),
            2 => CardBody::NativeFunction(format!("nf{}", o.1 % 3)).into(),
            3 => Card::read_var(match o.1 % 3 { 0 => "g".to_string(), 1 => format!("l{}.p{}", o.1 % 3, o.2.unsigned_abs() % 2), _ => format!("l{}.{}.q", o.1 % 3, o.2.unsigned_abs() % 4) }),
            4 => CardBody::ScalarNil.into(),
            5 => CardBody::CreateTable.into(),
            6 => Card::function_value("helper"),
            _ => CardBody::ScalarFloat(1.5).into(),
        };
    }
    match o.0 % 16 {
        0 => Card::set_global_var(format!("g{}", o.1 % 3), sub(pos)),
        1 => Card::set_var(format!("l{}", o.1 % 3), sub(pos)),
        2 => CardBody::Add(Box::new([sub(pos), sub(pos)])).into(),
        3 => CardBody::While(Box::new([sub(pos), sub(pos)])).into(),
        4 => CardBody::IfElse(Box::new([sub(pos), sub(pos), sub(pos)])).into(),
        5 => CardBody::IfTrue(Box::new([sub(pos), sub(pos)])).into(),
        6 => Card::repeat(sub(pos), if o.1 % 2 == 0 { Some("i".to_string()) } else { None }, sub(pos)),
        7 => CardBody::ForEach(Box::new(cao_lang::compiler::ForEach { i: Some("i".into()), k: if o.1 % 2 == 0 { Some("k".into()) } else { None }, v: Some("v".into()), iterable: Box::new(sub(pos)), body: Box::new(sub(pos)) })).into(),
        8 => Card::call_native(format!("nat{}", o.1 % 3), vec![sub(pos)]),
        9 => Card::call_function("helper", vec![sub(pos)]),
        10 => Card::dynamic_call(sub(pos), vec![sub(pos)]),
        11 => CardBody::Array(vec![sub(pos), sub(pos)]).into(),
        12 => Card::composite_card("c", vec![sub(pos), sub(pos)]),
        13 => Card::return_card(sub(pos)),
        14 => if o.1 % 2 == 0 {
            CardBody::Closure(Box::new(Function::default().with_arg("x").with_cards(vec![sub(pos)]))).into()
        } else {
            // a closure inside a closure that captures locals of the enclosing function (inherited upvalues)
            let inner: Card = CardBody::Closure(Box::new(Function::default().with_cards(vec![
                Card::set_global_var("g", Card::read_var(format!("l{}", o.2.unsigned_abs() % 3))),
                Card::set_global_var("h", Card::read_var(format!("l{}", (o.2.unsigned_abs() + 1) % 3))),
            ]))).into();
            CardBody::Closure(Box::new(Function::default().with_cards(vec![Card::set_var("inner", inner), sub(pos)]))).into()
        },
        _ => CardBody::Not(cao_lang::compiler::UnaryExpression { card: Box::new(sub(pos)) }).into(),
    }
}
fn run_decode_walk(ops: &[Op]) {
    let last = ops.len() - 1;
    let mut pos = 0;
    // locals l0..l2 exist in main so that variable reads resolve to locals / upvalues, not only globals
    let mut cards: Vec<Card> = (0..3).map(|k| Card::set_var(format!("l{k}"), Card::scalar_int(k))).collect();
    while pos < ops.len() && cards.len() < 7 { cards.push(build_card(ops, &mut pos, 0)); }
    let module = Module {
        functions: vec![
            ("main".to_string(), Function::default().with_cards(cards)),
            ("helper".to_string(), Function::default().with_arg("a").with_cards(vec![Card::return_card(Card::read_var("a"))])),
        ],
        ..Default::default()
    };
    let program = match compile(module, None) { Ok(p) => p, Err(_) => return };
    let text = program.disassemble_string();
    let mut starts = std::collections::HashSet::new();
    let mut last_line = String::new();
    for line in text.lines() {
        if let Some((off, name)) = line.split_once('\t') { if let Ok(o) = off.parse::<u32>() { starts.insert(o); last_line = format!("{o} {name}"); } }
    }
    for (addr, _) in program.trace.iter() {
        if !starts.contains(addr) {
            fail("decode_walk", ops, last, format!("the instruction the compiler emitted at address {addr} is not an instruction start when the program is decoded front to back by span() ({} bytes, walk visited {} instructions)", program.bytecode.len(), starts.len()));
        }
    }
    let want = format!("{} Exit", program.bytecode.len() - 1);
    if !last_line.starts_with(&want) { fail("decode_walk", ops, last, format!("the front to back walk ends with `{last_line}`, not with the final Exit at {}", program.bytecode.len() - 1)); }
}

// ---------------------------------------------------------------- closure capture (C06, compile-time clause)
// A variable name inside a closure designates what the same name designates in the enclosing code at that point: the
// innermost declaration.  ops[0] = (kind, outer value, depth): an outer local is shadowed by a loop variable of the same
// name; a closure (nested `depth` times) in the loop body reads the name; it must see what the loop body sees.
fn run_closure_capture(ops: &[Op]) {
    let last = ops.len() - 1;
    if ops[0].0 % 4 == 3 && ops[0].1 % 2 == 1 {
        // a function with more locals than a locals table holds: an error, never a panic
        let n = 250 + (ops[0].2.unsigned_abs() % 12) as usize;
        let cards: Vec<Card> = (0..n).map(|k| Card::set_var(format!("v{k}"), Card::scalar_int(k as i64))).collect();
        let module = Module { functions: vec![("main".to_string(), Function::default().with_cards(cards))], ..Default::default() };
        let hook = std::panic::take_hook();
        std::panic::set_hook(Box::new(|_| {}));
        let r = std::panic::catch_unwind(|| compile(module, None).map(|_| ()));
        std::panic::set_hook(hook);
        if r.is_err() { fail("closure_capture", ops, last, format!("compile() panicked on a function with {n} local variables (expected a program or a compilation error)")); }
        return;
    }
    if ops[0].0 % 4 == 3 {
        // a closure nested in a closure that names more variables than an upvalue table holds: an error, never a panic
        let (n_outer, n_mid) = (150 + (ops[0].1 % 100) as usize, 60 + (ops[0].2.unsigned_abs() % 60) as usize);
        let mut inner: Vec<Card> = (0..n_outer).map(|k| Card::set_global_var("g", Card::read_var(format!("m{k}")))).collect();
        inner.extend((0..n_mid).map(|k| Card::set_global_var("g", Card::read_var(format!("c{k}")))));
        let c2: Card = CardBody::Closure(Box::new(Function::default().with_cards(inner))).into();
        let mut mid: Vec<Card> = (0..n_mid).map(|k| Card::set_var(format!("c{k}"), Card::scalar_int(k as i64))).collect();
        mid.push(Card::set_var("f2", c2));
        let c1: Card = CardBody::Closure(Box::new(Function::default().with_cards(mid))).into();
        let mut cards: Vec<Card> = (0..n_outer).map(|k| Card::set_var(format!("m{k}"), Card::scalar_int(k as i64))).collect();
        cards.push(Card::set_var("f1", c1));
        let module = Module { functions: vec![("main".to_string(), Function::default().with_cards(cards))], ..Default::default() };
        let hook = std::panic::take_hook();
        std::panic::set_hook(Box::new(|_| {}));
        let r = std::panic::catch_unwind(|| compile(module, None).map(|_| ()));
        std::panic::set_hook(hook);
        if r.is_err() { fail("closure_capture", ops, last, format!("compile() panicked on a closure that captures {n_outer} + {n_mid} variables (expected a program or a compilation error)")); }
        return;
    }
    if ops[0].0 % 4 == 2 && ops[0].1 % 2 == 1 {
        // a closure created inside a called closure captures that frame's local, wherever the frame sits on the stack
        let pad = (ops[0].2.unsigned_abs() % 4) as usize;
        let inner: Card = CardBody::Closure(Box::new(Function::default().with_cards(vec![Card::set_global_var("gx", Card::read_var("x0")), Card::set_global_var("g", Card::read_var("y"))]))).into();
        let mut mid: Vec<Card> = (0..pad).map(|k| Card::set_var(format!("q{k}"), Card::scalar_int(k as i64))).collect();
        mid.extend(vec![Card::set_var("y", Card::scalar_int(20)), Card::set_var("inner", inner), Card::dynamic_call(Card::read_var("inner"), vec![])]);
        let outer: Card = CardBody::Closure(Box::new(Function::default().with_cards(mid))).into();
        let mut cards: Vec<Card> = (0..1 + pad).map(|k| Card::set_var(format!("x{k}"), Card::scalar_int(1 + k as i64))).collect();
        cards.extend(vec![Card::set_var("outer", outer), Card::dynamic_call(Card::read_var("outer"), vec![])]);
        let module = Module { functions: vec![("main".to_string(), Function::default().with_cards(cards))], ..Default::default() };
        let program = compile(module, None).unwrap();
        let mut vm = Vm::new(()).unwrap().with_max_iter(100_000);
        let r = vm.run(&program);
        let g = vm.read_var_by_name("g", &program.variables);
        let gx = vm.read_var_by_name("gx", &program.variables);
        if r.is_ok() && !matches!(gx, Some(Value::Integer(1))) {
            fail("closure_capture", ops, last, format!("inner closure reads x0 (a local of main, 1) and y (a local of the enclosing closure, 20) as gx = {gx:?}, g = {g:?}"));
        }
        if r.is_err() || !matches!(g, Some(Value::Integer(20))) {
            fail("closure_capture", ops, last, format!("main {{ x..; outer = || {{ y = 20; inner = || {{ g = y }}; inner() }}; outer() }} gives g = {g:?} (run {:?}), expected 20", r.map(|_| ()).map_err(|e| e.payload)));
        }
        return;
    }
    let (kind, outer, depth) = (ops[0].0 % 3, ops[0].1 as i64 + 100, 1 + (ops[0].2.unsigned_abs() % 2) as usize);
    let name = ["i", "v", "k"][kind as usize];
    let mut reader: Card = CardBody::Closure(Box::new(Function::default().with_cards(vec![Card::set_global_var("seen_by_closure", Card::read_var(name))]))).into();
    for _ in 1..depth {
        reader = CardBody::Closure(Box::new(Function::default().with_cards(vec![Card::dynamic_call(reader, vec![])]))).into();
    }
    let body = Card::composite_card("body", vec![Card::set_global_var("seen_directly", Card::read_var(name)), Card::dynamic_call(reader, vec![])]);
    let looped: Card = match kind {
        0 => Card::repeat(Card::scalar_int(1), Some("i".to_string()), body),
        _ => {
            let table: Card = CardBody::Array(vec![Card::scalar_int(7)]).into();
            CardBody::ForEach(Box::new(cao_lang::compiler::ForEach { i: None, k: if kind == 2 { Some("k".into()) } else { None }, v: if kind == 1 { Some("v".into()) } else { None }, iterable: Box::new(table), body: Box::new(body) })).into()
        }
    };
    let cards = vec![Card::set_var(name, Card::scalar_int(outer)), looped];
    let module = Module { functions: vec![("main".to_string(), Function::default().with_cards(cards))], ..Default::default() };
    let program = match compile(module, None) { Ok(p) => p, Err(e) => fail("closure_capture", ops, last, format!("does not compile: {:?}", e.payload)) };
    let mut vm = Vm::new(()).unwrap().with_max_iter(100_000);
    if let Err(e) = vm.run(&program) { fail("closure_capture", ops, last, format!("run failed: {:?}", e.payload)); }
    let direct = vm.read_var_by_name("seen_directly", &program.variables);
    let closure = vm.read_var_by_name("seen_by_closure", &program.variables);
    if format!("{direct:?}") != format!("{closure:?}") {
        fail("closure_capture", ops, last, format!("inside the loop `{name}` is {direct:?}, a closure created there (nesting {depth}) reads {closure:?} (the outer `{name}` is {outer})"));
    }
}

// ---------------------------------------------------------------- GC roots (C02, root phase)
// A closure that is called right where it is created is referenced by its call frame only (the call pops the function
// value).  Its body allocates enough garbage to make the collector run while it executes, then reads a captured
// variable: the closure object and its upvalues must have survived.  ops[0] = (_, allocations, limit selector).
// The unrepaired code frees the running closure: the process may crash (the search leaves the input in a file).
fn run_gc_roots(ops: &[Op]) {
    let last = ops.len() - 1;
    if ops[0].0 % 2 == 1 {
        // the host stores a table of strings into a VM whose heap is full of garbage: a collection runs while the table
        // is being built; what comes back must be what went in (or insert_value reports OutOfMemory)
        use cao_lang::value::{OwnedEntry, OwnedValue};
        let n = 100 + (ops[0].1 % 6) as usize * 50;
        let limit = [64usize, 96, 128][(ops[0].2.unsigned_abs() % 3) as usize] * 1024;
        let entries: Vec<OwnedEntry> = (0..n).map(|i| OwnedEntry { key: OwnedValue::String(format!("key-{i:04}")), value: OwnedValue::String(format!("value-{i:04}")) }).collect();
        let mut vm = Vm::new(()).unwrap();
        vm.runtime_data.set_memory_limit(limit);
        for i in 0..300 { let _ = vm.init_string(&format!("garbage-garbage-garbage-{i}")); }
        let v = match vm.insert_value(&OwnedValue::Table(entries)) { Ok(v) => v, Err(_) => return };
        match OwnedValue::try_from(v) {
            Ok(OwnedValue::Table(es)) => {
                let bad = es.iter().filter(|e| !matches!((&e.key, &e.value), (OwnedValue::String(k), OwnedValue::String(v)) if k.starts_with("key-") && v.starts_with("value-") && k[4..] == v[6..])).count();
                if es.len() != n || bad > 0 { fail("gc_roots", ops, last, format!("insert_value of a {n}-entry string table into a {limit} byte heap holding garbage: {} entries read back, {bad} of them corrupted", es.len())); }
            }
            other => fail("gc_roots", ops, last, format!("insert_value returned a table that reads back as {:?}", other.map(|_| ()))),
        }
        return;
    }
    let allocs = 500 + (ops[0].1 % 8) as i64 * 500;
    let limit = [32usize, 48, 64, 96][(ops[0].2.unsigned_abs() % 4) as usize] * 1024;
    // the garbage is produced either by the closure itself or by a function it calls (then the closure's frame is not the
    // innermost one when the collector runs)
    let nested = (ops[0].1 / 8) % 2 == 1;
    let churn = Card::repeat(Card::scalar_int(allocs), None, Card::set_var("t", CardBody::CreateTable));
    let body = vec![
        if nested { Card::call_function("churn", vec![]) } else { churn.clone() },
        Card::set_global_var("g", Card::read_var("x")),
    ];
    let closure: Card = CardBody::Closure(Box::new(Function::default().with_cards(body))).into();
    let cards = vec![Card::set_var("x", Card::scalar_int(42)), Card::dynamic_call(closure, vec![])];
    let module = Module { functions: vec![("main".to_string(), Function::default().with_cards(cards)), ("churn".to_string(), Function::default().with_cards(vec![churn]))], ..Default::default() };
    let program = compile(module, None).unwrap();
    let mut vm = Vm::new(()).unwrap().with_max_iter(50_000_000);
    vm.runtime_data.set_memory_limit(limit);
    let r = vm.run(&program);
    let g = vm.read_var_by_name("g", &program.variables);
    if r.is_err() || !matches!(g, Some(Value::Integer(42))) {
        fail("gc_roots", ops, last, format!("main {{ x = 42; (|| {{ repeat {allocs} {{ t = {{}} }}; g = x }})() }} with a {limit} byte heap: run {:?}, g = {g:?} (expected 42)", r.map(|_| ()).map_err(|e| e.payload)));
    }
}

// ---------------------------------------------------------------- cyclic_table (C04: recursion over self-referencing tables)
// A script can store a table in itself (SetProperty), directly or through a chain of tables.  Comparing such a table,
// hashing it (using it as a key) or converting it to an OwnedValue recurses through `Value::eq` / `Hash for Value` /
// `OwnedValue::try_from` with nothing that decreases.  The real code overflows the native stack and the process
// aborts, so the scenario runs in a child process (this executable re-invoked with CAO_REPLAY_CHILD set).
// ops[0] = (kind, cycle length - 1, _): kind % 3 = 0 `t == t`, 1 `k[t] = 1`, 2 host reads the global `g = t`.
fn cyclic_table_scenario(ops: &[Op]) {
    let kind = ops[0].0 % 3;
    let len = 1 + (ops[0].1 % 3) as usize;
    let tbl = || -> Card { CardBody::CreateTable.into() };
    let name = |i: usize| format!("t{}", i % len);
    let mut cards: Vec<Card> = (0..len).map(|i| Card::set_var(name(i), tbl())).collect();
    // t0[0] = t1; t1[0] = t2; ...; t(len-1)[0] = t0
    for i in 0..len { cards.push(Card::set_property(Card::read_var(name(i + 1)), Card::read_var(name(i)), Card::scalar_int(0))); }
    match kind {
        0 => cards.push(Card::set_global_var("g", CardBody::Equals(cao_lang::compiler::BinaryExpression::new([Card::read_var("t0"), Card::read_var("t0")])))),
        1 => { cards.push(Card::set_var("k", tbl())); cards.push(Card::set_property(Card::scalar_int(1), Card::read_var("k"), Card::read_var("t0"))); }
        _ => cards.push(Card::set_global_var("g", Card::read_var("t0"))),
    }
    let module = Module { functions: vec![("main".to_string(), Function::default().with_cards(cards))], ..Default::default() };
    let program = compile(module, None).unwrap();
    let mut vm = Vm::new(()).unwrap().with_max_iter(10_000);
    let r = vm.run(&program);
    if kind == 2 {
        if let Some(v) = vm.read_var_by_name("g", &program.variables) {
            let o = cao_lang::value::OwnedValue::try_from(v);
            println!("CHILD converted: {}", o.is_ok());
        }
    }
    println!("CHILD finished: {:?}", r.map(|_| ()).map_err(|e| e.payload));
}

fn run_cyclic_table(ops: &[Op]) {
    if std::env::var("CAO_REPLAY_CHILD").is_ok() { cyclic_table_scenario(ops); return; }
    let exe = std::env::current_exe().unwrap();
    let txt: Vec<String> = ops[..1].iter().map(|o| format!("{}:{}:{}", o.0, o.1, o.2)).collect();
    let out = std::process::Command::new(exe).args(["cyclic_table", "replay", "0", &txt.join(",")]).env("CAO_REPLAY_CHILD", "1").output().unwrap();
    if !out.status.success() {
        let what = ["`t0 == t0`", "`k[t0] = 1` (hashing t0)", "the host converting the global `g = t0` with OwnedValue::try_from"][(ops[0].0 % 3) as usize];
        let err = String::from_utf8_lossy(&out.stderr);
        let line = err.lines().find(|l| l.contains("overflow") || l.contains("panicked")).unwrap_or("").to_string();
        fail("cyclic_table", ops, 0, format!("a table that contains itself through a chain of {} table(s): {what} terminated the process abnormally ({}; {line}) instead of returning a result or an error", 1 + ops[0].1 % 3, out.status));
    }
}

// ---------------------------------------------------------------- serde_roundtrip (C11: the hand-written map (de)serialisers)
// ops build a CaoHashMap<u64, i64> and a HandleTable<i64> (op % 4: 0, 1 insert key -> value; 2 remove key; 3 round trip now);
// every round trip (and one at the end) writes both with the format chosen by `variant % 3` (json, cbor, bincode), reads
// them back and compares with a std HashMap model: same length, same entries, nothing else.
fn rt<T: serde::Serialize + serde::de::DeserializeOwned>(x: &T, format: u64) -> Result<T, String> {
    match format % 3 {
        0 => { let s = serde_json::to_string(x).map_err(|e| format!("json encode: {e}"))?; serde_json::from_str(&s).map_err(|e| format!("json decode: {e}")) }
        1 => { let mut b = Vec::new(); ciborium::ser::into_writer(x, &mut b).map_err(|e| format!("cbor encode: {e}"))?; ciborium::de::from_reader(&b[..]).map_err(|e| format!("cbor decode: {e}")) }
        _ => { let b = bincode::serde::encode_to_vec(x, bincode::config::standard()).map_err(|e| format!("bincode encode: {e}"))?; bincode::serde::decode_from_slice(&b, bincode::config::standard()).map(|r| r.0).map_err(|e| format!("bincode decode: {e}")) }
    }
}

fn run_serde_roundtrip(ops: &[Op], variant: u64) {
    let fmt = ["json", "cbor", "bincode"][(variant % 3) as usize];
    let mut map: CaoHashMap<u64, i64> = CaoHashMap::default();
    let mut table: HandleTable<i64> = HandleTable::default();
    let mut model: HashMap<u64, i64> = HashMap::new();
    // the table's model is keyed by the 32-bit handle itself (two u64 keys may share a handle)
    let mut tmodel: HashMap<u32, (Handle, i64)> = HashMap::new();
    // keys spread out so that the decoder's capacity padding and growth are exercised
    let key = |k: u64| 1 + k * 0x9E37 % 100_003;
    let mut ops: Vec<Op> = ops.to_vec();
    ops.push((3, 0, 0));
    for (step, &(op, k, v)) in ops.iter().enumerate() {
        let step = step.min(ops.len() - 2);
        match op % 4 {
            0 | 1 => {
                // a burst of keys for every op, so that maps of a few hundred entries are reached
                for j in 0..(1 + (v.unsigned_abs() % 40)) {
                    let kk = key(k * 41 + j);
                    map.insert(kk, v + j as i64).unwrap();
                    table.insert(Handle::from_u64(kk), v + j as i64).unwrap();
                    model.insert(kk, v + j as i64);
                    tmodel.insert(Handle::from_u64(kk).value(), (Handle::from_u64(kk), v + j as i64));
                }
            }
            2 => { let kk = key(k * 41); map.remove(&kk); table.remove(Handle::from_u64(kk)); model.remove(&kk); tmodel.remove(&Handle::from_u64(kk).value()); }
            _ => {
                let m2 = match rt(&map, variant) { Ok(m) => m, Err(e) => fail("serde_roundtrip", &ops[..ops.len() - 1], step, format!("CaoHashMap with {} entries does not survive a {fmt} round trip: {e}", model.len())) };
                if m2.len() != model.len() { fail("serde_roundtrip", &ops[..ops.len() - 1], step, format!("{fmt}: CaoHashMap has {} entries, the decoded one {}", model.len(), m2.len())); }
                for (k, v) in model.iter() {
                    if m2.get(k) != Some(v) { fail("serde_roundtrip", &ops[..ops.len() - 1], step, format!("{fmt}: CaoHashMap entry {k} -> {v} reads back as {:?}", m2.get(k))); }
                }
                if m2.iter().count() != model.len() { fail("serde_roundtrip", &ops[..ops.len() - 1], step, format!("{fmt}: the decoded CaoHashMap iterates over {} entries, expected {}", m2.iter().count(), model.len())); }
                let t2 = match rt(&table, variant) { Ok(m) => m, Err(e) => fail("serde_roundtrip", &ops[..ops.len() - 1], step, format!("HandleTable with {} entries does not survive a {fmt} round trip: {e}", tmodel.len())) };
                if t2.len() != tmodel.len() { fail("serde_roundtrip", &ops[..ops.len() - 1], step, format!("{fmt}: HandleTable has {} entries, the decoded one {}", tmodel.len(), t2.len())); }
                for (k, (h, v)) in tmodel.iter() {
                    if t2.get(*h) != Some(v) { fail("serde_roundtrip", &ops[..ops.len() - 1], step, format!("{fmt}: HandleTable entry {k} -> {v} reads back as {:?}", t2.get(*h))); }
                }
                if t2.iter().count() != tmodel.len() { fail("serde_roundtrip", &ops[..ops.len() - 1], step, format!("{fmt}: the decoded HandleTable iterates over {} entries, expected {}", t2.iter().count(), tmodel.len())); }
            }
        }
    }
}

// ---------------------------------------------------------------- native_keys (C02: keys a stdlib native holds across callbacks)
// std.sorted_by_key / min_by_key / max_by_key with a key function that returns a NEW table per row (its length is the
// row's value, so the expected outcome is known) and allocates garbage, on a small heap: collections run while the
// native still holds the keys of earlier rows in a Rust local.  What comes back must be what a run without memory
// pressure gives.  ops[0] = (kind, rows, heap selector): kind % 3 = 0 sorted_by_key, 1 min_by_key, 2 max_by_key.
fn run_native_keys(ops: &[Op]) {
    let kind = ops[0].0 % 3;
    let n = 5 + (ops[0].1 % 20) as i64;
    let limit = [24usize, 32, 48, 64][(ops[0].2.unsigned_abs() % 4) as usize] * 1024;
    let garbage = 100 + (ops[0].2.unsigned_abs() / 4 % 8) as i64 * 50;
    let fname = ["sorted_by_key", "min_by_key", "max_by_key"][kind as usize];
    let tbl = || -> Card { CardBody::CreateTable.into() };
    // t = [n, n-1, .., 1] for sorted / max, [1, .., n] reversed around the middle for min: the extreme is never row 0
    let vals: Vec<i64> = (0..n).map(|i| if kind == 1 { (i + n / 2) % n + 1 } else { (i + n / 2) % n + 1 }).collect();
    let arr: Vec<Card> = vals.iter().map(|v| CardBody::ScalarInt(*v).into()).collect();
    let module = Module {
        imports: vec![format!("std.{fname}")],
        functions: vec![
            ("main".to_string(), Function::default().with_cards(vec![
                Card::set_var("t", CardBody::Array(arr)),
                Card::set_global_var("g_result", Card::call_function(fname, vec![CardBody::Function("keyfn".to_string()).into(), Card::read_var("t")])),
            ])),
            ("keyfn".to_string(), Function::default().with_arg("_key").with_arg("val").with_cards(vec![
                Card::set_var("kt", tbl()),
                Card::repeat(Card::read_var("val"), Some("i".to_string()), Card::set_property(Card::read_var("i"), Card::read_var("kt"), Card::read_var("i"))),
                Card::repeat(Card::scalar_int(garbage), None, Card::set_var("tmp", tbl())),
                Card::return_card(Card::read_var("kt")),
            ])),
        ],
        ..Default::default()
    };
    let program = compile(module, None).unwrap();
    let mut vm = Vm::new(()).unwrap().with_max_iter(100_000_000);
    vm.runtime_data.set_memory_limit(limit);
    let got: Result<Vec<i64>, String> = (|| {
        vm.run(&program).map_err(|e| format!("{:?}", e.payload))?;
        let r = vm.read_var_by_name("g_result", &program.variables).ok_or("no result")?;
        let t = unsafe { r.as_table() }.ok_or("result is not a table")?;
        // sorted: the values in order; min / max: the `value` entry of the {key, value} row
        if kind == 0 { Ok(t.iter().map(|(_, v)| v.as_int().unwrap_or(-1)).collect()) }
        else { Ok(t.iter().skip(1).take(1).map(|(_, v)| v.as_int().unwrap_or(-1)).collect()) }
    })();
    // the key of a row is a table with `val` entries, tables order by length: the expected outcome is known
    let want: Vec<i64> = match kind { 0 => (1..=n).collect(), 1 => vec![1], _ => vec![n] };
    match got {
        Ok(g) if g == want => {}
        // running out of memory is an allowed outcome of a small heap
        Err(e) if e.contains("OutOfMemory") => {}
        other => fail("native_keys", ops, 0, format!("std.{fname} over the rows {vals:?} with a key function that returns a new table of `val` entries (+{garbage} garbage tables per call) on a {limit} byte heap: {:?}, expected {:?}", other, want)),
    }
}

// ---------------------------------------------------------------- callback_mutation (C04: a key function that changes the table being processed)
// std.sorted_by_key / min_by_key / max_by_key over a global table, with a key function that appends `grow` entries to that
// same table on every call.  The natives walk the table's key list and buckets through a borrow taken before the first
// call; the insertions reallocate both.  Any outcome that is a value or an execution error is fine (the run is bounded by
// the instruction budget); the real code dies with SIGSEGV, so the scenario runs in a child process.
// ops[0] = (kind, grow - 1, _): kind % 3 = 0 sorted_by_key, 1 min_by_key, 2 max_by_key.
fn callback_mutation_scenario(ops: &[Op]) {
    let fname = ["sorted_by_key", "min_by_key", "max_by_key"][(ops[0].0 % 3) as usize];
    let add = |a: Card, b: Card| -> Card { CardBody::Add(cao_lang::compiler::BinaryExpression::new([a, b])).into() };
    if (ops[0].0 / 3) % 2 == 1 {
        // the key function REMOVES the last row (a string nothing else refers to) on its first call and then allocates
        // garbage on a small heap: the native must keep the row it copied alive; all rows must come back
        let rows = ["row-a", "row-b", "row-c", "row-d"];
        let junk = 40 + (ops[0].1 % 8) as i64 * 20;
        let mut cards = vec![Card::set_global_var("t", CardBody::CreateTable)];
        for r in rows { cards.push(CardBody::AppendTable(cao_lang::compiler::BinaryExpression::new([Card::string_card(r), Card::read_var("t")])).into()); }
        cards.push(Card::set_global_var("g_result", Card::call_function(fname, vec![CardBody::Function("keyfn".to_string()).into(), Card::read_var("t")])));
        let module = Module {
            imports: vec![format!("std.{fname}")],
            functions: vec![
                ("main".to_string(), Function::default().with_cards(cards)),
                ("keyfn".to_string(), Function::default().with_arg("key").with_arg("val").with_cards(vec![
                    CardBody::IfTrue(Box::new([
                        CardBody::Equals(cao_lang::compiler::BinaryExpression::new([Card::read_var("key"), Card::scalar_int(0)])).into(),
                        Card::set_var("popped", CardBody::PopTable(cao_lang::compiler::UnaryExpression::new(Card::read_var("t")))),
                    ])).into(),
                    Card::set_var("popped", CardBody::ScalarNil),
                    Card::repeat(Card::scalar_int(junk), None, Card::set_var("junk", Card::string_card("junk!"))),
                    // max_by_key selects the removed row (largest key), min_by_key the first one
                    Card::return_card(Card::read_var("key")),
                ])),
            ],
            ..Default::default()
        };
        let program = compile(module, None).unwrap();
        let mut vm = Vm::new(()).unwrap().with_max_iter(2_000_000);
        vm.runtime_data.set_memory_limit(8 << 10);
        let r = vm.run(&program);
        let mut seen: Vec<String> = vec![];
        if let Some(g) = vm.read_var_by_name("g_result", &program.variables) {
            if let Some(t) = unsafe { g.as_table() } { seen = t.iter().map(|(_, v)| unsafe { v.as_str() }.map(|s| s.to_string()).unwrap_or_else(|| format!("{v:?}"))).collect(); }
        }
        println!("CHILD finished: {:?}, result values {seen:?}", r.as_ref().map(|_| ()).map_err(|e| &e.payload));
        let want: Vec<String> = match ops[0].0 % 3 { 0 => rows.iter().map(|s| s.to_string()).collect(), 1 => vec!["Integer(0)".to_string(), "row-a".to_string()], _ => vec!["Integer(3)".to_string(), "row-d".to_string()] };
        if r.is_ok() && seen != want { println!("CHILD wrong result: expected {want:?}"); std::process::exit(3); }
        return;
    }
    let grow = 1 + (ops[0].1 % 1024) as i64;
    let n = 6i64;
    let arr: Vec<Card> = (0..n).map(|i| CardBody::ScalarInt(n - i).into()).collect();
    let module = Module {
        imports: vec![format!("std.{fname}")],
        functions: vec![
            ("main".to_string(), Function::default().with_cards(vec![
                Card::set_global_var("t", CardBody::Array(arr)),
                Card::set_global_var("c", Card::scalar_int(1000)),
                Card::set_global_var("g_result", Card::call_function(fname, vec![CardBody::Function("keyfn".to_string()).into(), Card::read_var("t")])),
            ])),
            ("keyfn".to_string(), Function::default().with_arg("_key").with_arg("val").with_cards(vec![
                Card::repeat(Card::scalar_int(grow), None, Card::composite_card("grow", vec![
                    Card::set_global_var("c", add(Card::read_var("c"), Card::scalar_int(1))),
                    Card::set_property(Card::read_var("c"), Card::read_var("t"), Card::read_var("c")),
                ])),
                Card::return_card(Card::read_var("val")),
            ])),
        ],
        ..Default::default()
    };
    let program = compile(module, None).unwrap();
    let mut vm = Vm::new(()).unwrap().with_max_iter(2_000_000);
    let r = vm.run(&program);
    println!("CHILD finished: {:?}", r.map(|_| ()).map_err(|e| e.payload));
}

/// runs `<this executable> <unit> replay 0 <ops[0]>` as a child process with CAO_REPLAY_CHILD set -- under valgrind's
/// memcheck when it is installed (exit code 97 = memcheck reported an error): a read of freed memory does not always
/// kill an optimised build.  Some(description) if the child did not end normally.
fn run_child(unit: &str, ops: &[Op]) -> Option<String> {
    let exe = std::env::current_exe().unwrap();
    let txt: Vec<String> = ops[..1].iter().map(|o| format!("{}:{}:{}", o.0, o.1, o.2)).collect();
    let have_valgrind = std::process::Command::new("valgrind").arg("--version").output().map(|o| o.status.success()).unwrap_or(false);
    let mut cmd = if have_valgrind {
        let mut c = std::process::Command::new("valgrind");
        c.args(["-q", "--error-exitcode=97"]).arg(&exe);
        c
    } else { std::process::Command::new(&exe) };
    // the scenario may hang on unrepaired code (a cycle in a list): give the child two minutes; its output is drained by a
    // thread so that a talkative memcheck cannot block it
    let child = cmd.args([unit, "replay", "0", &txt.join(",")]).env("CAO_REPLAY_CHILD", "1")
        .stdout(std::process::Stdio::piped()).stderr(std::process::Stdio::piped()).spawn().unwrap();
    let pid = child.id();
    let (tx, rx) = std::sync::mpsc::channel();
    std::thread::spawn(move || { let _ = tx.send(child.wait_with_output()); });
    let out = match rx.recv_timeout(std::time::Duration::from_secs(120)) {
        Ok(Ok(out)) => out,
        _ => {
            let _ = std::process::Command::new("kill").args(["-9", &pid.to_string()]).status();
            return Some("the process did not return within 120 s".to_string());
        }
    };
    if out.status.success() { return None; }
    let err = String::from_utf8_lossy(&out.stderr);
    let lines: Vec<&str> = err.lines().filter(|l| l.contains("Invalid read") || l.contains("Invalid write") || l.contains("free'd") || l.contains("cao_lang::")).take(3).map(|l| l.trim()).collect();
    Some(format!("the process {} instead of returning a result or an error {}",
        if out.status.code() == Some(97) { "read or wrote freed memory (valgrind memcheck)".to_string() } else if out.status.code() == Some(3) { format!("returned a wrong result ({})", String::from_utf8_lossy(&out.stdout).lines().filter(|l| l.starts_with("CHILD")).collect::<Vec<_>>().join("; ")) } else { format!("terminated abnormally ({})", out.status) }, lines.join(" | ")))
}

fn run_callback_mutation(ops: &[Op]) {
    if std::env::var("CAO_REPLAY_CHILD").is_ok() { callback_mutation_scenario(ops); return; }
    if let Some(what) = run_child("callback_mutation", ops) {
        let fname = ["sorted_by_key", "min_by_key", "max_by_key"][(ops[0].0 % 3) as usize];
        if (ops[0].0 / 3) % 2 == 1 {
            fail("callback_mutation", ops, 0, format!("std.{fname} over the global table [row-a, row-b, row-c, row-d] whose key function pops the last row on its first call and allocates garbage on an 8 KiB heap: {what} (the rows the native copied must survive)"));
        }
        fail("callback_mutation", ops, 0, format!("std.{fname} over a 6-entry global table whose key function appends {} entries to that table per call: {what}", 1 + ops[0].1 % 1024));
    }
}

// ---------------------------------------------------------------- operand_rooting (C02: operands of the table instructions)
// SetProperty / AppendTable / NthRow take their operands from the value stack and then grow or create a table, which may
// run the collector.  An operand nothing else refers to -- the string literal being stored, a temporary table -- must
// survive that.  ops[0] = (kind, n, _): kind % 4 = 0 `repeat n { t.append("...") }`, 1 `repeat n { t[i] = "..." }`,
// 2 `repeat n { g = nth_row(mk(), 1) }`, 3 `repeat n { g = __to_array(mk()) }` (the argument of a native call) on a small heap.  Afterwards every stored value is read back.
// The unrepaired code stores pointers to freed strings: the scenario runs in a child process under valgrind.
// host functions of arity 1-4 registered by the driver: allocate (so that a collection can run), then read their arguments
fn host_use(vm: &mut Vm<()>, args: &[Value]) -> Result<Value, ExecutionErrorPayload> {
    for _ in 0..40 { let _ = vm.init_table()?; }
    let mut n = 0i64;
    for a in args {
        if let Some(t) = unsafe { a.as_table() } { n += t.iter().filter(|(_, v)| unsafe { v.as_str() } == Some("a string value that is long enough to matter")).count() as i64; }
    }
    Ok(Value::Integer(n))
}
fn host1(vm: &mut Vm<()>, a: Value) -> Result<Value, ExecutionErrorPayload> { host_use(vm, &[a]) }
fn host2(vm: &mut Vm<()>, a: Value, b: Value) -> Result<Value, ExecutionErrorPayload> { host_use(vm, &[a, b]) }
fn host3(vm: &mut Vm<()>, a: Value, b: Value, c: Value) -> Result<Value, ExecutionErrorPayload> { host_use(vm, &[a, b, c]) }
fn host4(vm: &mut Vm<()>, a: Value, b: Value, c: Value, d: Value) -> Result<Value, ExecutionErrorPayload> { host_use(vm, &[a, b, c, d]) }

/// kind 4: `t.k1 = 1; ..; t.k14 = 14` with new string keys, read back, under a memory limit that places the collections
/// differently for every ops[0].1; kinds 5-8: `g = hostN(mk(), .., mk())` -- N temporaries as arguments of a host function
/// kind 9: a host function asks a script function for a closure, guards it (nothing else refers to it), collects and
/// allocates, then calls the closure: the variable the closure captured lives in an upvalue object only the guarded
/// closure refers to -- what a protected object refers to must survive
fn host_call_later(vm: &mut Vm<()>, factory: Value) -> Result<Value, ExecutionErrorPayload> {
    let closure = vm.run_function(factory)?;
    let Value::Object(o) = closure else { return Err(ExecutionErrorPayload::invalid_argument("expected a closure")); };
    let _guard = cao_lang::vm::runtime::cao_lang_object::ObjectGcGuard::new(o);
    vm.runtime_data.gc();
    for _ in 0..16 { vm.init_string("eeyore")?; }
    vm.run_function(closure)
}

fn operand_rooting_scenario2(ops: &[Op]) {
    let kind = ops[0].0 % 10;
    if kind == 9 {
        let module = Module {
            functions: vec![
                ("createClosure".to_string(), Function::default()
                    .with_card(Card::set_var("result", Card::string_card("winnie the pooh")))
                    .with_card(Card::return_card(CardBody::Closure(Box::new(Function::default().with_card(Card::return_card(Card::read_var("result")))))))),
                ("main".to_string(), Function::default().with_card(Card::set_global_var("g_result", Card::call_native("call_later", vec![Card::function_value("createClosure")])))),
            ],
            ..Default::default()
        };
        let program = compile(module, None).unwrap();
        let mut vm = Vm::new(()).unwrap();
        vm.register_native_function("call_later", into_f1(host_call_later)).unwrap();
        let r = vm.run(&program);
        let got = vm.read_var_by_name("g_result", &program.variables).and_then(|v| unsafe { v.as_str() }.map(|s| s.to_string()));
        println!("CHILD finished: {:?}, g_result = {got:?}", r.as_ref().map(|_| ()).map_err(|e| &e.payload));
        if got.as_deref() != Some("winnie the pooh") { std::process::exit(3); }
        return;
    }
    let text = "a string value that is long enough to matter";
    if kind == 4 {
        let fields = 14;
        let mut cards = vec![Card::set_var("t", CardBody::CreateTable)];
        for i in 1..=fields { cards.push(Card::set_property(Card::scalar_int(i), Card::read_var("t"), Card::string_card(format!("k{i}")))); }
        for i in 0..8 { cards.push(Card::set_global_var(format!("filler{i}"), Card::string_card(format!("f{i}")))); }
        for i in 1..=fields { cards.push(Card::set_global_var(format!("r{i}"), Card::get_property(Card::read_var("t"), Card::string_card(format!("k{i}"))))); }
        let program = compile(Module { functions: vec![("main".to_string(), Function::default().with_cards(cards))], ..Default::default() }, None).unwrap();
        let mut bad = vec![];
        // every 8th limit in a window chosen by ops[0].1: together the windows cover all placements of the collections
        let lo = 64 + (ops[0].1 % 16) as usize * 1500;
        for limit in (lo..lo + 1500).step_by(8) {
            let mut vm = Vm::new(()).unwrap().with_max_iter(100_000);
            vm.runtime_data.set_memory_limit(limit);
            if vm.run(&program).is_err() { continue; }
            for i in 1..=fields {
                let got = vm.read_var_by_name(&format!("r{i}"), &program.variables).unwrap_or(Value::Nil);
                if got.as_int() != Some(i) { bad.push(format!("limit {limit}: t.k{i} reads {got:?}")); }
            }
        }
        println!("CHILD finished: {} wrong reads {:?}", bad.len(), &bad[..bad.len().min(3)]);
        if !bad.is_empty() { std::process::exit(3); }
        return;
    }
    let arity = (kind - 4) as usize;
    let n = 200 + (ops[0].1 % 8) as i64 * 100;
    let mut mk = vec![Card::set_var("m", CardBody::CreateTable)];
    for _ in 0..12 { mk.push(CardBody::AppendTable(cao_lang::compiler::BinaryExpression::new([Card::string_card(text), Card::read_var("m")])).into()); }
    mk.push(Card::return_card(Card::read_var("m")));
    let args: Vec<Card> = (0..arity).map(|_| Card::call_function("mk", vec![])).collect();
    let module = Module {
        functions: vec![("main".to_string(), Function::default().with_cards(vec![
            Card::set_global_var("bad", Card::scalar_int(0)),
            Card::repeat(Card::scalar_int(n), None, Card::composite_card("body", vec![
                Card::set_global_var("g", Card::call_native(format!("host{arity}"), args)),
                CardBody::IfTrue(Box::new([
                    CardBody::NotEquals(cao_lang::compiler::BinaryExpression::new([Card::read_var("g"), Card::scalar_int(12 * arity as i64)])).into(),
                    Card::set_global_var("bad", Card::read_var("g")),
                ])).into(),
            ])),
        ])), ("mk".to_string(), Function::default().with_cards(mk))],
        ..Default::default()
    };
    let program = compile(module, None).unwrap();
    let mut vm = Vm::new(()).unwrap().with_max_iter(100_000_000);
    vm.register_native_function("host1", into_f1(host1)).unwrap();
    vm.register_native_function("host2", into_f2(host2)).unwrap();
    vm.register_native_function("host3", into_f3(host3)).unwrap();
    vm.register_native_function("host4", into_f4(host4)).unwrap();
    vm.runtime_data.set_memory_limit(96 << 10);
    let r = vm.run(&program);
    let bad = vm.read_var_by_name("bad", &program.variables);
    println!("CHILD finished: {:?}, bad = {bad:?}", r.as_ref().map(|_| ()).map_err(|e| &e.payload));
    if r.is_ok() && bad.and_then(|b| b.as_int()) != Some(0) { std::process::exit(3); }
}

fn operand_rooting_scenario(ops: &[Op]) {
    if ops[0].0 % 10 >= 4 { operand_rooting_scenario2(ops); return; }
    let kind = ops[0].0 % 10;
    let n = 1000 + (ops[0].1 % 8) as i64 * 500;
    let text = "a string value that is long enough to matter";
    let body: Card = match kind {
        // a native function called on a temporary: the VmFunction wrapper pops the argument before the call
        3 => Card::set_global_var("g", Card::call_native("__to_array", vec![Card::call_function("mk", vec![])])),
        0 => CardBody::AppendTable(cao_lang::compiler::BinaryExpression::new([Card::string_card(text), Card::read_var("t")])).into(),
        1 => Card::set_property(Card::string_card(text), Card::read_var("t"), Card::read_var("i")),
        // the table operand of NthRow is a temporary (the value a function returned)
        _ => Card::set_global_var("g", CardBody::Get(cao_lang::compiler::BinaryExpression::new([Card::call_function("mk", vec![]), Card::scalar_int(1)]))),
    };
    // mk(): a new table of strings that only its caller's operand stack refers to
    let mut mk = vec![Card::set_var("m", CardBody::CreateTable)];
    for _ in 0..12 { mk.push(CardBody::AppendTable(cao_lang::compiler::BinaryExpression::new([Card::string_card(text), Card::read_var("m")])).into()); }
    mk.push(Card::return_card(Card::read_var("m")));
    let module = Module {
        functions: vec![("main".to_string(), Function::default().with_cards(vec![
            Card::set_global_var("t", CardBody::CreateTable),
            Card::repeat(Card::scalar_int(n), Some("i".to_string()), body),
        ])), ("mk".to_string(), Function::default().with_cards(mk))],
        ..Default::default()
    };
    let program = compile(module, None).unwrap();
    let mut vm = Vm::new(()).unwrap().with_max_iter(100_000_000);
    vm.runtime_data.set_memory_limit(if kind >= 2 { 64 << 10 } else { 1 << 20 });
    let r = vm.run(&program);
    let mut good = 0usize;
    if let Some(t) = vm.read_var_by_name("t", &program.variables) {
        if let Some(t) = unsafe { t.as_table() } { good = t.iter().filter(|(_, v)| unsafe { v.as_str() } == Some(text)).count(); }
    }
    if kind >= 2 {
        if let Some(g) = vm.read_var_by_name("g", &program.variables) {
            if let Some(row) = unsafe { g.as_table() } { good += row.iter().filter(|(_, v)| unsafe { v.as_str() } == Some(text)).count(); }
        }
    }
    println!("CHILD finished: {:?}, {good} values read back", r.map(|_| ()).map_err(|e| e.payload));
}

fn run_operand_rooting(ops: &[Op]) {
    if std::env::var("CAO_REPLAY_CHILD").is_ok() { operand_rooting_scenario(ops); return; }
    if let Some(what) = run_child("operand_rooting", ops) {
        if ops[0].0 % 10 == 4 { fail("operand_rooting", ops, 0, format!("main {{ t = {{}}; t.k1 = 1; .. t.k14 = 14; (8 more strings); r1 = t.k1; .. }} under memory limits {}..{} (every placement of the collections): {what}", 64 + (ops[0].1 % 16) * 1500, 64 + (ops[0].1 % 16) * 1500 + 1500)); }
        if ops[0].0 % 10 == 9 { fail("operand_rooting", ops, 0, format!("a host function gets a closure from a script function (run_function), guards it with an ObjectGcGuard, collects, allocates 16 strings and calls the closure, which returns the variable it captured: {what} (what a protected object refers to must survive)")); }
        if ops[0].0 % 10 >= 5 { let a = ops[0].0 % 10 - 4; fail("operand_rooting", ops, 0, format!("main {{ repeat {{ g = host{a}(mk(), ..) }} }}: a host function of arity {a} (registered with into_f{a}; it allocates 40 tables, then counts the strings in its arguments) called on temporaries on a 96 KiB heap: {what}")); }
        let n = 1000 + (ops[0].1 % 8) * 500;
        let prog = [format!("t = {{}}; repeat {n} {{ append(t, \"<string literal>\") }}"), format!("t = {{}}; repeat {n} i {{ t[i] = \"<string literal>\" }}"),
                    format!("repeat {n} {{ g = nth_row(mk(), 1) }} on a 64 KiB heap, mk() returning a new table of 12 strings"),
                    format!("repeat {n} {{ g = __to_array(mk()) }} (a native function called on a temporary) on a 64 KiB heap, mk() returning a new table of 12 strings")][(ops[0].0 % 10) as usize].clone();
        fail("operand_rooting", ops, 0, format!("main {{ {prog} }}: {what}"));
    }
}

// ---------------------------------------------------------------- stdlib_model (C09: what the native-backed library functions return)
// A table {100+i: v_i} with small values (many ties), and std.min_by_key / max_by_key / sorted_by_key with one of four key
// functions of (key, val) -- val, -val, -key, val * 1000 - key -- or std.to_array; compared with the specification: first
// extreme row, stable ascending order, values re-keyed 0..n-1.  ops[i].2 are the values; (variant / 4) % 4 picks the function,
// (variant / 16) % 4 the key function.
fn run_stdlib_model(ops: &[Op], variant: u64) {
    // (the search gives every 4th sequence up to 40 rows: take the function from higher bits so that each gets long tables)
    let which = (variant / 4) % 4;
    let kf = (variant / 16) % 4;
    let fname = ["min_by_key", "max_by_key", "sorted_by_key", "to_array"][which as usize];
    let vals: Vec<i64> = ops.iter().map(|o| o.2.rem_euclid(7)).collect();
    let n = vals.len();
    let mut cards: Vec<Card> = vec![Card::set_var("t", CardBody::CreateTable)];
    for (i, v) in vals.iter().enumerate() {
        cards.push(Card::set_property(Card::scalar_int(*v), Card::read_var("t"), Card::scalar_int(100 + i as i64)));
    }
    let call = if which == 3 { Card::call_function(fname, vec![Card::read_var("t")]) }
               else { Card::call_function(fname, vec![CardBody::Function("keyfn".to_string()).into(), Card::read_var("t")]) };
    cards.push(Card::set_global_var("g_result", call));
    let bin = |a: Card, b: Card| cao_lang::compiler::BinaryExpression::new([a, b]);
    let keyexpr: Card = match kf {
        0 => Card::read_var("val"),
        1 => CardBody::Sub(bin(Card::scalar_int(0), Card::read_var("val"))).into(),
        2 => CardBody::Sub(bin(Card::scalar_int(0), Card::read_var("key"))).into(),
        _ => CardBody::Sub(bin(CardBody::Mul(bin(Card::read_var("val"), Card::scalar_int(1000))).into(), Card::read_var("key"))).into(),
    };
    let kfname = ["val", "-val", "-key", "val * 1000 - key"][kf as usize];
    let module = Module {
        imports: vec![format!("std.{fname}")],
        functions: vec![
            ("main".to_string(), Function::default().with_cards(cards)),
            ("keyfn".to_string(), Function::default().with_arg("key").with_arg("val").with_card(Card::return_card(keyexpr))),
        ],
        ..Default::default()
    };
    let program = match compile(module, None) { Ok(p) => p, Err(_) => return };
    let mut vm = Vm::new(()).unwrap().with_max_iter(1_000_000);
    if vm.run(&program).is_err() { return; }
    let Some(r) = vm.read_var_by_name("g_result", &program.variables) else { return };
    let keyof = |i: usize| -> i64 { let (k, v) = (100 + i as i64, vals[i]); match kf { 0 => v, 1 => -v, 2 => -k, _ => v * 1000 - k } };
    let last = ops.len() - 1;
    let rows: Vec<(Value, Value)> = match unsafe { r.as_table() } { Some(t) => t.iter().map(|(k, v)| (*k, *v)).collect(), None => vec![] };
    let ints = |v: &Value| v.as_int().unwrap_or(i64::MIN);
    match which {
        0 | 1 => {
            // first row whose key no other row's key is smaller (larger) than
            let mut best = 0usize;
            for i in 1..n { if if which == 0 { keyof(i) < keyof(best) } else { keyof(i) > keyof(best) } { best = i; } }
            let got: Vec<i64> = rows.iter().map(|(_, v)| ints(v)).collect();
            if got != vec![100 + best as i64, vals[best]] {
                fail("stdlib_model", ops, last, format!("std.{fname} over the values {vals:?} (keys 100..) with key function {kfname}: {{key, value}} = {got:?}, expected [{}, {}] (the first extreme row)", 100 + best, vals[best]));
            }
        }
        2 => {
            let mut want: Vec<usize> = (0..n).collect();
            want.sort_by_key(|i| keyof(*i)); // std's sort_by_key is stable
            let want: Vec<(i64, i64)> = want.iter().map(|i| (100 + *i as i64, vals[*i])).collect();
            let got: Vec<(i64, i64)> = rows.iter().map(|(k, v)| (ints(k), ints(v))).collect();
            if got != want { fail("stdlib_model", ops, last, format!("std.sorted_by_key over the values {vals:?} (keys 100..) with key function {kfname}: {got:?}, expected the stable ascending order {want:?}")); }
        }
        _ => {
            let want: Vec<(i64, i64)> = vals.iter().enumerate().map(|(i, v)| (i as i64, *v)).collect();
            let got: Vec<(i64, i64)> = rows.iter().map(|(k, v)| (ints(k), ints(v))).collect();
            if got != want { fail("stdlib_model", ops, last, format!("std.to_array over the values {vals:?} (keys 100..): {got:?}, expected {want:?}")); }
        }
    }
}

// ---------------------------------------------------------------- upvalue_list (C06 / C02: the list of open upvalues)
// kind 0..5: make() declares locals v0..v3 (values 10, 20, 30, 40) and returns a closure that captures them in the order
//   given by a permutation (kind picks it) and returns v0*1000000 + v1*10000 + v2*100 + v3; main calls make(), then
//   clobber() (which reuses the stack slots), then the closure: every captured variable must have survived make()'s
//   return (an upvalue that dropped out of the open list is never closed and reads a reused slot).
// kind 6: make() creates a closure over `a`, drops it, allocates on a small heap (a collection frees the dropped
//   closure and, unless open upvalues are roots, its upvalue object, which is still linked in the open list), then
//   creates another closure over `a` -- which walks that list.  Child process under valgrind.
fn upvalue_list_scenario(ops: &[Op]) {
    let kind = ops[0].0 % 11;
    let closure = |cards: Vec<Card>| -> Card { CardBody::Closure(Box::new(Function::default().with_cards(cards))).into() };
    let bin = |a: Card, b: Card| cao_lang::compiler::BinaryExpression::new([a, b]);
    if kind >= 7 {
        // 7: a counter closure called three times after its creator returned (write + read through a closed upvalue)
        // 8: two closures over one variable: `inc` called twice (once while the variable is on the stack, once after it was
        //    closed), then `get` (shared identity)
        // 9: a closure that creates a closure over a variable of the outermost function (inherited upvalue), called last
        // 10: a closure writes a local while its function is still running; the function reads the local afterwards
        let set = |n: &str, v: Card| Card::set_var(n, v);
        let incr = |n: &str| Card::set_var(n, CardBody::Add(bin(Card::read_var(n), Card::scalar_int(1))));
        let (fns, want): (Vec<(String, Function)>, i64) = match kind {
            7 => (vec![
                ("make".to_string(), Function::default().with_cards(vec![set("n", Card::scalar_int(0)), Card::return_card(closure(vec![incr("n"), Card::return_card(Card::read_var("n"))]))])),
                ("main".to_string(), Function::default().with_cards(vec![
                    Card::set_global_var("c", Card::call_function("make", vec![])),
                    Card::set_global_var("junk", Card::dynamic_call(Card::read_var("c"), vec![])),
                    Card::set_global_var("junk", Card::dynamic_call(Card::read_var("c"), vec![])),
                    Card::set_global_var("g", Card::dynamic_call(Card::read_var("c"), vec![])),
                ])),
            ], 3),
            8 => (vec![
                ("make".to_string(), Function::default().with_cards(vec![
                    set("n", Card::scalar_int(40)),
                    Card::set_global_var("inc", closure(vec![incr("n")])),
                    set("get", closure(vec![Card::return_card(Card::read_var("n"))])),
                    Card::dynamic_call(Card::read_var("inc"), vec![]),
                    Card::return_card(Card::read_var("get")),
                ])),
                ("main".to_string(), Function::default().with_cards(vec![
                    Card::set_global_var("get", Card::call_function("make", vec![])),
                    Card::dynamic_call(Card::read_var("inc"), vec![]),
                    Card::set_global_var("g", Card::dynamic_call(Card::read_var("get"), vec![])),
                ])),
            ], 42),
            9 => (vec![
                ("outer".to_string(), Function::default().with_cards(vec![
                    set("pad", Card::scalar_int(1)), set("a", Card::scalar_int(11)), set("b", Card::scalar_int(55)),
                    // the middle closure captures a then b; the innermost one inherits only b (a different position)
                    Card::return_card(closure(vec![
                        Card::set_global_var("mid_sum", CardBody::Add(bin(Card::read_var("a"), Card::read_var("b")))),
                        Card::return_card(closure(vec![Card::return_card(Card::read_var("b"))])),
                    ])),
                ])),
                ("main".to_string(), Function::default().with_cards(vec![
                    Card::set_global_var("m", Card::call_function("outer", vec![])),
                    Card::set_global_var("i", Card::dynamic_call(Card::read_var("m"), vec![])),
                    Card::set_global_var("g", Card::dynamic_call(Card::read_var("i"), vec![])),
                ])),
            ], 55),
            _ => (vec![
                ("main".to_string(), Function::default().with_cards(vec![
                    set("pad", Card::scalar_int(9)), set("a", Card::scalar_int(1)),
                    set("c", closure(vec![set("a", Card::scalar_int(2))])),
                    Card::dynamic_call(Card::read_var("c"), vec![]),
                    Card::set_global_var("g", CardBody::Add(bin(Card::read_var("a"), CardBody::Mul(bin(Card::read_var("pad"), Card::scalar_int(10))).into()))),
                ])),
            ], 92),
        };
        let program = compile(Module { functions: fns, ..Default::default() }, None).unwrap();
        let mut vm = Vm::new(()).unwrap();
        let r = vm.run(&program);
        let g = vm.read_var_by_name("g", &program.variables).and_then(|v| v.as_int());
        println!("CHILD finished: {:?}, g = {g:?}, expected {want} (scenario {kind})", r.as_ref().map(|_| ()).map_err(|e| &e.payload));
        if g != Some(want) { std::process::exit(3); }
        return;
    }
    if kind == 6 {
        let module = Module {
            functions: vec![
                ("make".to_string(), Function::default().with_cards(vec![
                    Card::set_var("a", Card::scalar_int(10)),
                    Card::set_var("tmp", closure(vec![Card::return_card(Card::read_var("a"))])),
                    Card::set_var("tmp", CardBody::ScalarNil),
                    Card::repeat(Card::scalar_int(400 + (ops[0].1 % 8) as i64 * 100), None, Card::set_var("junk", CardBody::CreateTable)),
                    Card::return_card(closure(vec![Card::return_card(Card::read_var("a"))])),
                ])),
                ("main".to_string(), Function::default().with_cards(vec![
                    Card::set_global_var("c", Card::call_function("make", vec![])),
                    Card::set_global_var("g", Card::dynamic_call(Card::read_var("c"), vec![])),
                ])),
            ],
            ..Default::default()
        };
        let program = compile(module, None).unwrap();
        let mut vm = Vm::new(()).unwrap().with_max_iter(10_000_000);
        vm.runtime_data.set_memory_limit(32 << 10);
        let r = vm.run(&program);
        let g = vm.read_var_by_name("g", &program.variables).and_then(|v| v.as_int());
        println!("CHILD finished: {:?}, g = {g:?}", r.as_ref().map(|_| ()).map_err(|e| &e.payload));
        if r.is_ok() && g != Some(10) { std::process::exit(3); }
        return;
    }
    // the order in which the closure body mentions (= captures) the four variables
    let perms: [[usize; 4]; 6] = [[0, 1, 2, 3], [3, 2, 1, 0], [1, 0, 3, 2], [2, 0, 3, 1], [0, 3, 1, 2], [1, 2, 0, 3]];
    let perm = perms[kind as usize];
    let weight = [1_000_000i64, 10_000, 100, 1];
    let mut sum: Card = Card::scalar_int(0);
    for &v in perm.iter() {
        sum = CardBody::Add(bin(sum, CardBody::Mul(bin(Card::read_var(format!("v{v}")), Card::scalar_int(weight[v]))).into())).into();
    }
    let mut make: Vec<Card> = (0..4).map(|i| Card::set_var(format!("v{i}"), Card::scalar_int(10 * (i as i64 + 1)))).collect();
    make.push(Card::return_card(closure(vec![Card::return_card(sum)])));
    let module = Module {
        functions: vec![
            ("make".to_string(), Function::default().with_cards(make)),
            ("clobber".to_string(), Function::default().with_cards(vec![
                Card::set_var("x", Card::scalar_int(777)), Card::set_var("y", Card::scalar_int(888)),
                Card::set_var("z", Card::scalar_int(999)), Card::set_var("w", Card::scalar_int(555)),
                Card::return_card(Card::read_var("x")),
            ])),
            ("main".to_string(), Function::default().with_cards(vec![
                Card::set_global_var("c", Card::call_function("make", vec![])),
                Card::set_global_var("junk", Card::call_function("clobber", vec![])),
                Card::set_global_var("g", Card::dynamic_call(Card::read_var("c"), vec![])),
            ])),
        ],
        ..Default::default()
    };
    let program = compile(module, None).unwrap();
    let mut vm = Vm::new(()).unwrap();
    let r = vm.run(&program);
    let g = vm.read_var_by_name("g", &program.variables).and_then(|v| v.as_int());
    println!("CHILD finished: {:?}, g = {g:?} (captured in the order {perm:?})", r.as_ref().map(|_| ()).map_err(|e| &e.payload));
    if g != Some(10_203_040) { std::process::exit(3); }
}

fn run_upvalue_list(ops: &[Op]) {
    if std::env::var("CAO_REPLAY_CHILD").is_ok() { upvalue_list_scenario(ops); return; }
    if let Some(what) = run_child("upvalue_list", ops) {
        if ops[0].0 % 11 >= 7 {
            let what2 = ["a counter closure (n = n + 1; return n) called three times after its creator returned, expected 3", "inc and get over one variable (40): inc() inside make, inc() after make returned, then get(), expected 42", "outer { a = 11; b = 55; return || { mid_sum = a + b; return || b } }: the innermost closure inherits b from the middle one (which captured a, then b), expected 55", "main { pad = 9; a = 1; c = || { a = 2 }; c(); g = a + pad * 10 }, expected 92"][(ops[0].0 % 11 - 7) as usize];
            fail("upvalue_list", ops, 0, format!("{what2}: {what}"));
        }
        if ops[0].0 % 11 == 6 {
            fail("upvalue_list", ops, 0, format!("make {{ a = 10; tmp = || a; tmp = nil; (allocate on a 32 KiB heap); return || a }}; main {{ c = make(); g = c() }}: {what} (the dropped closure's upvalue is still in the list of open upvalues)"));
        }
        fail("upvalue_list", ops, 0, format!("make {{ v0 = 10; v1 = 20; v2 = 30; v3 = 40; return || (the four variables, captured in a given order) }}; main {{ c = make(); clobber(); g = c() }}, expected g = 10203040: {what}"));
    }
}


// ---- C16: Module::swap_cards against the property's statement, exhaustively over one small module with deep nesting
// (candidate indices: both functions, every path over {0,1,2} up to length 4, valid and invalid; every ordered pair)
fn me_module() -> Module {
    use cao_lang::compiler::{Card, CardBody, UnaryExpression};
    let not = |c: Card| -> Card { CardBody::Not(UnaryExpression::new(c)).into() };
    Module {
        submodules: Default::default(),
        imports: Default::default(),
        functions: vec![
            ("main".to_string(), Function::default().with_card(Card::scalar_int(1)).with_card(not(not(not(Card::scalar_int(42))))).with_card(not(Card::scalar_int(7)))),
            ("other".to_string(), Function::default().with_card(not(not(Card::scalar_int(5)))).with_card(Card::scalar_int(9))),
        ],
    }
}
fn me_candidates() -> Vec<(usize, Vec<u32>)> {
    let mut out = vec![];
    for f in 0..2usize {
        let mut level: Vec<Vec<u32>> = vec![vec![]];
        for _ in 0..4 {
            let mut next = vec![];
            for p in &level { for k in 0..3u32 { let mut q = p.clone(); q.push(k); next.push(q); } }
            for q in &next { out.push((f, q.clone())); }
            level = next;
        }
    }
    out
}
fn run_module_edit(ops: &[Op]) {
    use cao_lang::compiler::CardIndex;
    let cands = me_candidates();
    let pairs: Vec<(usize, usize)> = if ops.len() == 2 { vec![(ops[0].1 as usize % cands.len(), ops[1].1 as usize % cands.len())] }
        else { (0..cands.len()).flat_map(|a| (0..cands.len()).map(move |b| (a, b))).collect() };
    let valid = |m: &Module, i: &CardIndex| { let s = format!("{:?}", m.get_card(i)); s.starts_with("Some") || s.starts_with("Ok") };
    // single-index edits: replace / replace back, insert / remove, and the walk (ops of length 1 replay one index)
    let singles: Vec<usize> = if ops.len() == 1 { vec![ops[0].1 as usize % cands.len()] } else if ops.is_empty() { (0..cands.len()).collect() } else { vec![] };
    for ii in singles.iter().copied() {
        let (f, pth) = &cands[ii];
        let i = CardIndex::from_slice(*f, pth);
        let rops = [(1u8, ii as u64, 0i64)];
        let fresh = cao_lang::compiler::Card::scalar_int(77);
        let mut m = me_module();
        let before = format!("{:?}", m);
        let v = valid(&m, &i);
        match m.replace_card(&i, fresh.clone()) {
            Err(_) => {
                if v { fail("module_edit", &rops, 0, format!("replace_card({f}:{pth:?}) at a valid index failed")); }
                if format!("{:?}", m) != before { fail("module_edit", &rops, 0, format!("replace_card({f}:{pth:?}) failed but changed the module")); }
            }
            Ok(old) => {
                if !v { fail("module_edit", &rops, 0, format!("replace_card({f}:{pth:?}) at an invalid index succeeded")); }
                if format!("{:?}", m.get_card(&i).ok()) != format!("{:?}", Some(&fresh)) { fail("module_edit", &rops, 0, format!("after replace_card({f}:{pth:?}) the index does not return the new card")); }
                let back = m.replace_card(&i, old);
                if back.is_err() || format!("{:?}", m) != before { fail("module_edit", &rops, 0, format!("replacing back at {f}:{pth:?} does not restore the module")); }
            }
        }
        let mut m = me_module();
        let before = format!("{:?}", m);
        match m.insert_card(&i, fresh.clone()) {
            Err(_) => { if format!("{:?}", m) != before { fail("module_edit", &rops, 0, format!("insert_card({f}:{pth:?}) failed but changed the module")); } }
            Ok(()) => {
                if format!("{:?}", m.get_card(&i).ok()) != format!("{:?}", Some(&fresh)) { fail("module_edit", &rops, 0, format!("after insert_card({f}:{pth:?}) the index does not return the inserted card")); }
                // fixed-arity cards (here: Not) keep their slots: insert_child overwrites the slot's card, which remove cannot
                // bring back; "remove undoes insert" is demanded where the insertion added a card (list-like parents)
                let mut n_after = 0usize; m.walk_cards(|_, _| n_after += 1);
                let mut m0 = me_module(); let mut n_before = 0usize; m0.walk_cards(|_, _| n_before += 1);
                if n_after == n_before + 1 { match m.remove_card(&i) {
                    Err(_) => fail("module_edit", &rops, 0, format!("remove_card({f}:{pth:?}) right after insert_card at that index failed")),
                    Ok(c) => if format!("{:?}", c) != format!("{:?}", fresh) || format!("{:?}", m) != before { fail("module_edit", &rops, 0, format!("remove_card({f}:{pth:?}) does not undo insert_card at the same index")); }
                } }
            }
        }
        if !v {
            let mut m = me_module();
            let before = format!("{:?}", m);
            if m.remove_card(&i).is_ok() { fail("module_edit", &rops, 0, format!("remove_card({f}:{pth:?}) at an invalid index succeeded")); }
            if format!("{:?}", m) != before { fail("module_edit", &rops, 0, format!("remove_card({f}:{pth:?}) failed but changed the module")); }
        }
    }
    if ops.is_empty() {
        // the walk reports every card once, with an index that looks up that same card
        let mut m = me_module();
        let mut seen: Vec<(String, String)> = vec![];
        m.walk_cards(|i, c| seen.push((format!("{:?}", i), format!("{:?}", c))));
        let mut n_valid = 0usize;
        for (f, pth) in cands.iter() {
            let i = CardIndex::from_slice(*f, pth);
            if !valid(&m, &i) { continue; }
            n_valid += 1;
            let key = format!("{:?}", i);
            let hits: Vec<&(String, String)> = seen.iter().filter(|e| e.0 == key).collect();
            if hits.len() != 1 { fail("module_edit", &[(2u8, 0, 0)], 0, format!("walk_cards reported the card at {f}:{pth:?} {} times", hits.len())); }
            if hits[0].1 != format!("{:?}", m.get_card(&i).unwrap()) { fail("module_edit", &[(2u8, 0, 0)], 0, format!("walk_cards reported another card for {f}:{pth:?} than get_card returns")); }
        }
        if seen.len() != n_valid { fail("module_edit", &[(2u8, 0, 0)], 0, format!("walk_cards reported {} cards, the module has {}", seen.len(), n_valid)); }
    }
    for (ia, ib) in pairs {
        let (fa, pa) = &cands[ia]; let (fb, pb) = &cands[ib];
        let a = CardIndex::from_slice(*fa, pa); let b = CardIndex::from_slice(*fb, pb);
        let mut m = me_module();
        let before = format!("{:?}", m);
        let (va, vb) = (valid(&m, &a), valid(&m, &b));
        let related = fa == fb && pa != pb && (pa.starts_with(pb) || pb.starts_with(pa));
        let rops = [(0u8, ia as u64, 0i64), (0u8, ib as u64, 0i64)];
        let r = m.swap_cards(&a, &b).is_ok();
        let after = format!("{:?}", m);
        if !r {
            if after != before { fail("module_edit", &rops, 0, format!("swap_cards({fa}:{pa:?}, {fb}:{pb:?}) failed but changed the module: {after}")); }
            if va && vb && !related && (ia != ib) { fail("module_edit", &rops, 0, format!("swap_cards({fa}:{pa:?}, {fb}:{pb:?}) of two valid unrelated cards failed")); }
        } else {
            if !va || !vb { fail("module_edit", &rops, 0, format!("swap_cards({fa}:{pa:?}, {fb}:{pb:?}) with an invalid index succeeded")); }
            if related { fail("module_edit", &rops, 0, format!("swap_cards({fa}:{pa:?}, {fb}:{pb:?}) of a card with its own ancestor succeeded")); }
            if !m.swap_cards(&a, &b).is_ok() || format!("{:?}", m) != before { fail("module_edit", &rops, 1, format!("swapping {fa}:{pa:?} and {fb}:{pb:?} twice is not the identity")); }
        }
    }
}

fn dispatch(unit: &str, ops: &[Op], variant: u64) {
    VARIANT.store(variant, std::sync::atomic::Ordering::Relaxed);
    match unit {
        "hash_map" => run_hash_map(ops, [0usize, 1, 2, 3, 4, 5, 8][(variant % 7) as usize]),
        "handle_table" => run_handle_table(ops, [0usize, 1, 2, 3, 4, 5, 8, 16][(variant % 8) as usize]),
        "value_stack" => run_value_stack(ops, [1usize, 2, 3, 4, 6][(variant % 5) as usize]),
        "bounded_stack" => run_bounded_stack(ops, [0usize, 1, 2, 3, 5][(variant % 5) as usize]),
        "cao_lang_table" => run_table(ops),
        "object_laws" => run_object_laws(ops),
        "name_resolution" => run_name_resolution(ops, variant % 4 == 3),
        "label_collision" => run_label_collision(ops),
        "error_trace" => run_error_trace(ops),
        "decode_walk" => run_decode_walk(ops),
        "closure_capture" => run_closure_capture(ops),
        "gc_roots" => run_gc_roots(ops),
        "cyclic_table" => run_cyclic_table(ops),
        "upvalue_list" => run_upvalue_list(ops),
        "stdlib_model" => run_stdlib_model(ops, variant),
        "callback_mutation" => run_callback_mutation(ops),
        "operand_rooting" => run_operand_rooting(ops),
        "native_keys" => run_native_keys(ops),
        "serde_roundtrip" => run_serde_roundtrip(ops, variant),
        "module_edit" => run_module_edit(ops),
        _ => { eprintln!("unknown unit {unit}"); std::process::exit(2); }
    }
}

fn main() {
    let args: Vec<String> = std::env::args().collect();
    let unit = args[1].as_str();
    if args[2] == "replay" {
        let variant: u64 = args[3].parse().unwrap();
        let ops: Vec<Op> = args[4].split(',').map(|s| { let p: Vec<&str> = s.split(':').collect(); (p[0].parse().unwrap(), p[1].parse().unwrap(), p[2].parse().unwrap()) }).collect();
        dispatch(unit, &ops, variant);
        println!("OK replayed {} ops without a difference", ops.len());
        return;
    }
    let seed: u64 = args[3].parse().unwrap();
    let iters: u64 = args[4].parse().unwrap();
    if unit == "label_collision" {
        search_label_collision();
        println!("OK no card label equals the label of an earlier function for functions < 48, card paths [i, j] with i, j < 1600");
        return;
    }
    if unit == "module_edit" {
        dispatch(unit, &[], 0);
        println!("OK 240 candidate indices: replace/replace-back, insert/remove, failed edits are no-ops, walk_cards agrees with get_card; every ordered pair: failed swaps left the module unchanged, successful ones undo themselves");
        return;
    }
    if unit == "cyclic_table" {
        // nine shapes: each spawns a child process
        for kind in 0..3u8 { for len in 0..3u64 { dispatch(unit, &[(kind, len, 0)], 0); } }
        println!("OK comparing, hashing and converting tables that contain themselves (cycle length 1..3) returned normally");
        return;
    }
    if unit == "upvalue_list" {
        for kind in 0..11u8 { dispatch(unit, &[(kind, 2, 0)], 0); }
        println!("OK captured variables survived their function's return and the open-upvalue list stayed intact");
        return;
    }
    if unit == "operand_rooting" {
        // each shape spawns a child process
        for kind in 0..4u8 { for n in [2u64, 4] { dispatch(unit, &[(kind, n, 0)], 0); } }
        for w in 0..16u64 { dispatch(unit, &[(4, w, 0)], 0); }
        for kind in 5..10u8 { dispatch(unit, &[(kind, 2, 0)], 0); }
        println!("OK table instructions kept their operands alive while tables grew");
        return;
    }
    if unit == "callback_mutation" {
        // a few shapes: each spawns a child process
        for kind in 0..3u8 { for grow in [0u64, 2, 9, 39] { dispatch(unit, &[(kind, grow, 0)], 0); } }
        for kind in 3..6u8 { for junk in [1u64, 5] { dispatch(unit, &[(kind, junk, 0)], 0); } }
        println!("OK key functions that append to the table being processed returned normally");
        return;
    }
    let mut rng = Rng(seed.wrapping_mul(0x9E3779B97F4A7C15) | 1);
    let last_file = std::env::var("CAO_REPLAY_LAST").ok();
    for it in 0..iters {
        let len = 1 + rng.below(if it % 4 == 0 { 40 } else { 12 }) as usize;
        let nkeys = 2 + rng.below(22);
        let mut ops: Vec<Op> = (0..len).map(|_| (rng.below(16) as u8, rng.below(nkeys), (rng.below(100) as i64) - 3)).collect();
        if unit == "name_resolution" && it % 3 != 0 {
            // focused scenarios: a small tree, then a caller function, an import that reaches something that exists
            // (exactly, or one `super.` too many) and a call through that import
            ops = (0..2 + rng.below(7)).map(|_| ([0u8, 0, 1, 1, 1, 2][rng.below(6) as usize], rng.below(24), 0i64)).collect();
            ops.push((0, rng.below(4), 0));
            ops.push((4, 0, 0));
            ops.push((3, rng.below(600), 40 + rng.below(57) as i64));
            ops.push((5, rng.below(64), 30 + rng.below(70) as i64));
        }
        if let Some(path) = &last_file {
            // the real code may crash the process (the disassembler transmutes bytes): leave the input behind
            let txt: Vec<String> = ops.iter().map(|o| format!("{}:{}:{}", o.0, o.1, o.2)).collect();
            let _ = std::fs::write(path, format!("{} {} {}", unit, it, txt.join(",")));
        }
        dispatch(unit, &ops, it);
    }
    println!("OK {} sequences without a difference", iters);
}

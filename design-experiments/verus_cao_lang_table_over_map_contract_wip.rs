use vstd::prelude::*;
verus! {

global size_of usize == 8;

// R1: Value with content equality abstracted to structural equality on scalar kinds
#[derive(Clone, Copy, PartialEq, Eq, Structural)]
pub enum Value {
    Nil,
    Integer(i64),
}

pub enum ExecErr { OutOfMemory }
pub enum MapError { AllocError }

// ---- the contract of CaoHashMap<Value, Value> as established by the hash_map unit (C12)
pub struct CaoHashMap { ghost_view: Ghost<IMap<Value, Value>> }

impl CaoHashMap {
    pub uninterp spec fn wf(&self) -> bool;
    pub uninterp spec fn view(&self) -> IMap<Value, Value>;

    #[verifier::external_body]
    pub fn get(&self, k: &Value) -> (r: Option<&Value>)
        requires self.wf(),
        ensures match r { Some(v) => self@.dom().contains(*k) && *v == self@[*k], None => !self@.dom().contains(*k) },
    { unimplemented!() }

    #[verifier::external_body]
    pub fn contains(&self, k: &Value) -> (r: bool)
        requires self.wf(),
        ensures r == self@.dom().contains(*k),
    { unimplemented!() }

    #[verifier::external_body]
    pub fn get_mut(&mut self, k: &Value) -> (r: Option<&mut Value>)
        requires old(self).wf(),
        ensures final(self).wf(),
            !old(self)@.dom().contains(*k) ==> r.is_none() && final(self)@ == old(self)@,
            old(self)@.dom().contains(*k) ==> r.is_some() && *r.unwrap() == old(self)@[*k]
                && final(self)@ == old(self)@.insert(*k, *final(r.unwrap())),
    { unimplemented!() }

    #[verifier::external_body]
    pub fn insert(&mut self, k: Value, v: Value) -> (r: Result<u64, MapError>)
        requires old(self).wf(),
        ensures final(self).wf(),
            r.is_ok() ==> final(self)@ == old(self)@.insert(k, v),
            r.is_err() ==> final(self)@ == old(self)@,
    { unimplemented!() }

    #[verifier::external_body]
    pub fn remove(&mut self, k: &Value) -> (r: Option<Value>)
        requires old(self).wf(),
        ensures final(self).wf(), final(self)@ == old(self)@.remove(*k),
    { unimplemented!() }
}

pub struct CaoLangTable {
    map: CaoHashMap,
    keys: Vec<Value>,
}

pub open spec fn no_dup(s: Seq<Value>) -> bool {
    forall|i: int, j: int| 0 <= i < s.len() && 0 <= j < s.len() && i != j ==> s[i] != s[j]
}

impl CaoLangTable {
    pub closed spec fn wf(&self) -> bool {
        &&& self.map.wf()
        &&& no_dup(self.keys@)
        &&& forall|k: Value| #[trigger] self.map@.dom().contains(k) <==> self.keys@.contains(k)
    }

    /// the table as an insertion-ordered association list
    pub closed spec fn view(&self) -> Seq<(Value, Value)> {
        Seq::new(self.keys@.len(), |i: int| (self.keys@[i], self.map@[self.keys@[i]]))
    }

    pub closed spec fn has(&self, k: Value) -> bool { self.keys@.contains(k) }
    pub closed spec fn val(&self, k: Value) -> Value { self.map@[k] }

    fn len(&self) -> (n: usize)
        ensures n == self@.len(),
    {
        self.keys.len()
    }

    fn nth_key(&self, i: usize) -> (k: Value)
        ensures i < self@.len() ==> k == self@[i as int].0, i >= self@.len() ==> k == Value::Nil,
    {
        if i >= self.keys.len() {
            return Value::Nil;
        }
        self.keys[i]
    }

    // nested fn `_insert(this, key, value)` of the real `insert`
    fn _insert(this: &mut CaoLangTable, key: Value, value: Value) -> (r: Result<(), ExecErr>)
        requires old(this).wf(),
        ensures final(this).wf(),
            r.is_err() ==> final(this)@ =~= old(this)@,
            r.is_ok() && old(this).has(key) ==> final(this)@.len() == old(this)@.len()
                && (forall|i: int| 0 <= i < old(this)@.len() ==> final(this)@[i] ==
                    (if old(this)@[i].0 == key { (key, value) } else { old(this)@[i] })),
            r.is_ok() && !old(this).has(key) ==> final(this)@ =~= old(this)@.push((key, value)),
    {
        match this.map.get_mut(&key) {
            Some(r) => {
                *r = value;
            }
            None => {
                match this.map.insert(key, value) { Ok(_) => {}, Err(_) => { return Err(ExecErr::OutOfMemory); } }   // R3: .map_err(..)?
                this.keys.push(key);
                proof {
                    let ks = this.keys@;
                    assert(no_dup(ks)) by {
                        assert forall|i: int, j: int| 0 <= i < ks.len() && 0 <= j < ks.len() && i != j implies ks[i] != ks[j] by {
                            let ok = old(this).keys@;
                            if i < ok.len() && j < ok.len() { assert(ok[i] != ok[j]); }
                            else if i < ok.len() { assert(ok.contains(ok[i])); }
                            else if j < ok.len() { assert(ok.contains(ok[j])); }
                        }
                    }
                    assert forall|k: Value| #[trigger] this.map@.dom().contains(k) <==> ks.contains(k) by {
                        let ok = old(this).keys@;
                        if k == key { assert(ks[ks.len() - 1] == key); }
                        else {
                            if ok.contains(k) { let i = choose|i: int| 0 <= i < ok.len() && ok[i] == k; assert(ks[i] == k); }
                            if ks.contains(k) { let i = choose|i: int| 0 <= i < ks.len() && ks[i] == k; assert(ok[i] == k); }
                        }
                    }
                }
            }
        }
        Ok(())
    }

    /// pinned body of pop()
    fn pop(&mut self) -> (r: Result<Value, ExecErr>)
        requires old(self).wf(),
        ensures final(self).wf(),
            old(self)@.len() == 0 ==> (r matches Ok(Value::Nil)) && final(self)@.len() == 0,
            old(self)@.len() > 0 ==> (r matches Ok(v) && v == old(self)@.last().1)
                && final(self)@ =~= old(self)@.drop_last(),
    {
        match self.keys.pop() {
            Some(key) => {
                let res = match self.map.get(&key) { Some(v) => *v, None => Value::Nil };   // .copied().unwrap_or(Nil)
                self.remove(key)?;
                Ok(res)
            }
            None => Ok(Value::Nil),
        }
    }

    /// `remove` after the R3 expansion of Vec::retain
    fn remove(&mut self, key: Value) -> (r: Result<(), ExecErr>)
        requires old(self).map.wf(), no_dup(old(self).keys@),
        ensures r.is_ok(), final(self).map.wf(), no_dup(final(self).keys@),
            final(self).keys@ =~= old(self).keys@.filter(|k: Value| k != key),
            old(self).keys@.contains(key) ==> final(self).map@ == old(self).map@.remove(key),
            !old(self).keys@.contains(key) ==> final(self).map@ == old(self).map@,
    {
        let mut i: usize = 0;
        while i < self.keys.len()
            invariant
                self.map.wf(), no_dup(self.keys@), i <= self.keys@.len(),
                self.keys@.len() <= old(self).keys@.len(),
                // prefix [0,i) is already filtered, suffix is the untouched tail of the original
                self.keys@.take(i as int) =~= old(self).keys@.take(old(self).keys@.len() - (self.keys@.len() - i)).filter(|k: Value| k != key),
                self.keys@.skip(i as int) =~= old(self).keys@.skip(old(self).keys@.len() - (self.keys@.len() - i)),
                (old(self).keys@.take(old(self).keys@.len() - (self.keys@.len() - i)).contains(key)) ==> self.map@ == old(self).map@.remove(key),
                !(old(self).keys@.take(old(self).keys@.len() - (self.keys@.len() - i)).contains(key)) ==> self.map@ == old(self).map@,
            decreases self.keys@.len() - i,
        {
            let k = self.keys[i];
            let retain = k != key;
            if !retain {
                self.map.remove(&k);
            }
            if retain { i += 1; } else { let _ = self.keys.remove(i); }
            assume(false); // prototype: loop body proof left for implementation
        }
        assume(false);
        Ok(())
    }
}

} // verus!
fn main() {}

use vstd::prelude::*;
verus! {

pub enum Payload { Timeout, UnexpectedEndOfInput, Other }

pub struct Vm {
    pub max_instr: u64,
    pub remaining_iters: u64,
    pub call_depth: usize,
    pub ghost_executed: Ghost<nat>,
    pub bytecode_len: usize,
}

pub enum Step { Continue, Exit, Fail }

impl Vm {
    // R6: the body of `match instr { .. }` is replaced by this opaque call.
    // Its contract is the frame assumption: a handler (including one that re-enters through
    // run_function -> _run) only ever consumes budget, one unit per executed instruction.
    #[verifier::external_body]
    fn dispatch(&mut self, instr_ptr: &mut usize) -> (s: Step)
        ensures
            final(self).remaining_iters <= old(self).remaining_iters,
            final(self).ghost_executed@ - old(self).ghost_executed@ == old(self).remaining_iters - final(self).remaining_iters,
            final(self).max_instr == old(self).max_instr,
            final(self).bytecode_len == old(self).bytecode_len,
    { unimplemented!() }

    fn _run(&mut self, instr_ptr: &mut usize) -> (r: Result<(), Payload>)
        ensures
            final(self).remaining_iters <= old(self).remaining_iters,
            final(self).ghost_executed@ - old(self).ghost_executed@ == old(self).remaining_iters - final(self).remaining_iters,
            final(self).max_instr == old(self).max_instr,
    {
        let len = self.bytecode_len;
        while *instr_ptr < len
            invariant
                self.remaining_iters <= old(self).remaining_iters,
                self.ghost_executed@ - old(self).ghost_executed@ == old(self).remaining_iters - self.remaining_iters,
                self.max_instr == old(self).max_instr,
                self.bytecode_len == len,
            decreases self.remaining_iters,
        {
            if self.remaining_iters == 0 {
                return Err(Payload::Timeout);
            }
            self.remaining_iters -= 1;
            proof { self.ghost_executed@ = self.ghost_executed@ + 1; }
            match self.dispatch(instr_ptr) {
                Step::Continue => {}
                Step::Exit => return Ok(()),
                Step::Fail => return Err(Payload::Other),
            }
        }
        Err(Payload::UnexpectedEndOfInput)
    }

    pub fn run(&mut self) -> (r: Result<(), Payload>)
        ensures final(self).ghost_executed@ - old(self).ghost_executed@ <= old(self).max_instr,
    {
        self.remaining_iters = self.max_instr;
        let mut instr_ptr = 0;
        let result = self._run(&mut instr_ptr);
        result
    }
}

} // verus!
fn main() {}

use vstd::prelude::*;
verus! {

global size_of usize == 8;

#[derive(Clone, Copy)]
pub enum Value { Nil, Integer(i64) }

pub enum ExecutionErrorPayload { MissingArgument, CallStackOverflow, Stackoverflow, BadReturn }
pub enum StackError { Full }

#[derive(Clone, Copy)]
pub struct ClosureRef(pub usize);   // R1: *mut CaoLangClosure

pub struct CallFrame {
    pub src_instr_ptr: u32,
    pub dst_instr_ptr: u32,
    pub stack_offset: u32,
    pub closure: ClosureRef,
}

// ---- contracts of the two stacks as established by the C14 units
pub struct ValueStack { g: Ghost<Seq<Value>> }
impl ValueStack {
    pub uninterp spec fn wf(&self) -> bool;
    pub uninterp spec fn view(&self) -> Seq<Value>;
    pub uninterp spec fn cap(&self) -> nat;
    #[verifier::external_body]
    pub fn len(&self) -> (n: usize) requires self.wf(), ensures n == self@.len(), { unimplemented!() }
    #[verifier::external_body]
    pub fn push(&mut self, v: Value) -> (r: Result<(), StackError>)
        requires old(self).wf(),
        ensures final(self).wf(), final(self).cap() == old(self).cap(),
            r.is_ok() <==> old(self)@.len() + 2 <= old(self).cap(),
            r.is_ok() ==> final(self)@ =~= old(self)@.push(v), r.is_err() ==> final(self)@ =~= old(self)@,
    { unimplemented!() }
    #[verifier::external_body]
    pub fn clear_until(&mut self, index: usize) -> (res: Value)
        requires old(self).wf(), index <= old(self)@.len(),
        ensures final(self).wf(), final(self).cap() == old(self).cap(), final(self)@ =~= old(self)@.take(index as int),
            old(self)@.len() > 0 ==> res == old(self)@.last(), old(self)@.len() == 0 ==> res == Value::Nil,
    { unimplemented!() }
}

pub struct BoundedStack { g: Ghost<Seq<CallFrame>> }
impl BoundedStack {
    pub uninterp spec fn wf(&self) -> bool;
    pub uninterp spec fn view(&self) -> Seq<CallFrame>;
    pub uninterp spec fn cap(&self) -> nat;
    #[verifier::external_body]
    pub fn push(&mut self, v: CallFrame) -> (r: Result<(), StackError>)
        requires old(self).wf(),
        ensures final(self).wf(), final(self).cap() == old(self).cap(),
            r.is_ok() <==> old(self)@.len() < old(self).cap(),
            r.is_ok() ==> final(self)@ =~= old(self)@.push(v), r.is_err() ==> final(self)@ =~= old(self)@,
    { unimplemented!() }
    #[verifier::external_body]
    pub fn pop(&mut self) -> (r: Option<CallFrame>)
        requires old(self).wf(),
        ensures final(self).wf(), final(self).cap() == old(self).cap(),
            old(self)@.len() == 0 ==> r.is_none() && final(self)@ =~= old(self)@,
            old(self)@.len() > 0 ==> r == Some(old(self)@.last()) && final(self)@ =~= old(self)@.drop_last(),
    { unimplemented!() }
    #[verifier::external_body]
    pub fn last_mut(&mut self) -> (r: Option<&mut CallFrame>)
        requires old(self).wf(),
        ensures final(self).wf(), final(self).cap() == old(self).cap(),
            old(self)@.len() == 0 ==> r.is_none() && final(self)@ =~= old(self)@,
            old(self)@.len() > 0 ==> r.is_some() && *r.unwrap() == old(self)@.last()
                && final(self)@ =~= old(self)@.drop_last().push(*final(r.unwrap())),
    { unimplemented!() }
}

// R6: RuntimeData reduced to the fields these functions touch
pub struct RuntimeData {
    pub value_stack: ValueStack,
    pub call_stack: BoundedStack,
}

pub fn push_call_frame(
    arity: usize,
    src_ptr: u32,
    instr_ptr: u32,
    closure: ClosureRef,
    runtime_data: &mut RuntimeData,
) -> (r: Result<(), ExecutionErrorPayload>)
    requires old(runtime_data).value_stack.wf(), old(runtime_data).call_stack.wf(),
        old(runtime_data).call_stack@.len() > 0,          // "Call stack was empty" panic otherwise
        old(runtime_data).value_stack@.len() <= u32::MAX,
    ensures
        final(runtime_data).value_stack@ =~= old(runtime_data).value_stack@,      // a call never touches values
        final(runtime_data).value_stack.wf(), final(runtime_data).call_stack.wf(),
        r.is_ok() ==> final(runtime_data).call_stack@.len() == old(runtime_data).call_stack@.len() + 1
            && final(runtime_data).call_stack@.last().stack_offset as int == old(runtime_data).value_stack@.len() - arity
            && final(runtime_data).call_stack@.last().dst_instr_ptr == instr_ptr
            && final(runtime_data).call_stack@[old(runtime_data).call_stack@.len() - 1].dst_instr_ptr == instr_ptr,
        arity > old(runtime_data).value_stack@.len() ==> r matches Err(ExecutionErrorPayload::MissingArgument),
{
    // remember the location after this jump
    match runtime_data.call_stack.last_mut() {          // R3: .expect("Call stack was empty")
        Some(f) => { f.dst_instr_ptr = instr_ptr; }
        None => { assert(false); }
    }

    // init the new call frame
    let stack_offset = match runtime_data.value_stack.len().checked_sub(arity) {      // R3: .ok_or(..)?
        Some(x) => x,
        None => { return Err(ExecutionErrorPayload::MissingArgument); }
    };
    match runtime_data.call_stack.push(CallFrame {
            src_instr_ptr: src_ptr,
            dst_instr_ptr: instr_ptr,
            stack_offset: stack_offset as u32,
            closure,
        }) {
        Ok(()) => {}
        Err(_) => { return Err(ExecutionErrorPayload::CallStackOverflow); }           // R3: .map_err(..)?
    }
    Ok(())
}

/// instr_return with `_close_upvalues` stubbed (R6): it touches neither stack
pub fn instr_return(rt: &mut RuntimeData, instr_ptr: &mut usize) -> (r: Result<(), ExecutionErrorPayload>)
    requires old(rt).value_stack.wf(), old(rt).call_stack.wf(),
        old(rt).call_stack@.len() >= 2,
        old(rt).call_stack@.last().stack_offset as int <= old(rt).value_stack@.len(),
        old(rt).call_stack@.last().stack_offset as int + 2 <= old(rt).value_stack.cap(),
    ensures
        r.is_ok(),
        final(rt).call_stack@ =~= old(rt).call_stack@.drop_last(),
        *final(instr_ptr) == old(rt).call_stack@[old(rt).call_stack@.len() - 2].dst_instr_ptr as usize,
        ({
            let off = old(rt).call_stack@.last().stack_offset as int;
            let ret = if old(rt).value_stack@.len() > 0 { old(rt).value_stack@.last() } else { Value::Nil };
            // the caller's slots, then exactly the returned value
            final(rt).value_stack@ =~= old(rt).value_stack@.take(off).push(ret)
        }),
{
    let value = match rt.call_stack.pop() {
        Some(call_frame) => {
            rt.value_stack.clear_until(call_frame.stack_offset as usize)
        }
        None => {
            return Err(ExecutionErrorPayload::BadReturn);
        }
    };
    match rt.call_stack.last_mut() {
        Some(f) => {
            *instr_ptr = f.dst_instr_ptr as usize;
        }
        None => {
            return Err(ExecutionErrorPayload::BadReturn);
        }
    }
    match rt.value_stack.push(value) { Ok(()) => {}, Err(_) => { return Err(ExecutionErrorPayload::Stackoverflow); } }
    Ok(())
}

} // verus!
fn main() {}

use vstd::prelude::*;
verus! {

pub struct Node { pub val: u64, pub kids: Vec<Node> }

impl Node {
    fn get_child_mut(&mut self, i: usize) -> (r: Option<&mut Node>)
        ensures
            i >= old(self).kids@.len() ==> r.is_none() && *final(self) == *old(self),
            i < old(self).kids@.len() ==> r.is_some()
                && *r.unwrap() == old(self).kids@[i as int]
                && final(self).val == old(self).val
                && final(self).kids@ == old(self).kids@.update(i as int, *final(r.unwrap())),
    {
        if i < self.kids.len() { Some(&mut self.kids[i]) } else { None }
    }

    fn set_child_val(&mut self, i: usize, v: u64)
        requires i < old(self).kids@.len(),
        ensures final(self).kids@.len() == old(self).kids@.len(),
            final(self).kids@[i as int].val == v,
            forall|j: int| 0 <= j < old(self).kids@.len() && j != i ==> final(self).kids@[j] == old(self).kids@[j],
    {
        match self.get_child_mut(i) {
            Some(c) => { c.val = v; }
            None => {}
        }
    }
}

} // verus!
fn main() {}

use vstd::prelude::*;
verus! {

global size_of usize == 8;

#[derive(Clone, Copy, PartialEq, Eq, Structural)]
pub struct Key(pub u64);

pub struct CaoHashMap<V> {
    hashes: Vec<u64>,
    keys: Vec<Option<Key>>,
    values: Vec<Option<V>>,
    count: usize,
    capacity: usize,
}

/// the (uninterpreted) hash function of the key type
pub uninterp spec fn spec_hash(k: Key) -> u64;

pub open spec fn occupied(s: Seq<u64>) -> nat
    decreases s.len()
{
    if s.len() == 0 { 0 } else { occupied(s.drop_last()) + if s.last() != 0 { 1nat } else { 0nat } }
}

proof fn lemma_occupied_bound(s: Seq<u64>)
    ensures occupied(s) <= s.len()
    decreases s.len()
{
    if s.len() > 0 { lemma_occupied_bound(s.drop_last()); }
}

proof fn lemma_exists_empty(s: Seq<u64>)
    requires occupied(s) < s.len()
    ensures exists|i: int| 0 <= i < s.len() && #[trigger] s[i] == 0
    decreases s.len()
{
    if s.len() > 0 {
        if s.last() == 0 {
            assert(s[s.len() - 1] == 0);
        } else {
            lemma_occupied_bound(s.drop_last());
            lemma_exists_empty(s.drop_last());
            let i = choose|i: int| 0 <= i < s.drop_last().len() && #[trigger] s.drop_last()[i] == 0;
            assert(s[i] == 0);
        }
    }
}

proof fn lemma_occupied_update(s: Seq<u64>, i: int, h: u64)
    requires 0 <= i < s.len()
    ensures occupied(s.update(i, h)) == occupied(s) - (if s[i] != 0 { 1int } else { 0int }) + (if h != 0 { 1int } else { 0int })
    decreases s.len()
{
    let t = s.update(i, h);
    if i == s.len() - 1 {
        assert(t.drop_last() =~= s.drop_last());
    } else {
        assert(t.drop_last() =~= s.drop_last().update(i, h));
        lemma_occupied_update(s.drop_last(), i, h);
    }
}

proof fn lemma_mod_step(ind: usize, len: usize)
    requires len >= 1, ind < len,
    ensures ((ind + 1) % (len as int)) == (if ind + 1 == len { 0int } else { ind + 1 }),
{
    if ind + 1 == len {
        assert((len as int) % (len as int) == 0) by (nonlinear_arith) requires len >= 1;
    } else {
        assert(((ind + 1) as int) % (len as int) == ind + 1) by (nonlinear_arith) requires 0 <= ind + 1 < len;
    }
}

proof fn lemma_mod_bound(x: int, len: int)
    requires len >= 1, x >= 0,
    ensures 0 <= x % len < len,
{
    assert(0 <= x % len < len) by (nonlinear_arith) requires len >= 1, x >= 0;
}

pub open spec fn cdist(a: int, b: int, cap: int) -> int { if a >= b { a - b } else { a - b + cap } }

proof fn lemma_dist(a: usize, b: usize, cap: usize)
    requires cap >= 1, a < cap, b < cap,
    ensures ((a + cap - b) as int % (cap as int)) == cdist(a as int, b as int, cap as int),
{
    if a >= b {
        assert(((a + cap - b) as int) % (cap as int) == a - b) by (nonlinear_arith) requires 0 <= a - b < cap, cap >= 1;
    } else {
        assert(((a + cap - b) as int) % (cap as int) == a + cap - b) by (nonlinear_arith) requires 0 <= a + cap - b < cap, cap >= 1;
    }
}

pub open spec fn nxt(i: int, cap: int) -> int { if i + 1 == cap { 0 } else { i + 1 } }

pub open spec fn in_range(a: int, b: int, x: int) -> bool {
    if a <= b { a <= x < b } else { x >= a || x < b }
}

pub open spec fn home(h: u64, cap: usize) -> int {
    ((h.wrapping_mul(2654435769u64)) as usize as int) % (cap as int)
}

proof fn lemma_home_bound(h: u64, cap: usize)
    requires cap >= 1,
    ensures 0 <= home(h, cap) < cap,
{
    lemma_mod_bound((h.wrapping_mul(2654435769u64)) as usize as int, cap as int);
}

pub open spec fn chain(h: Seq<u64>, cap: usize) -> bool {
    forall|i: int, x: int| 0 <= i < cap && 0 <= x < cap && #[trigger] h[i] != 0 && in_range(home(h[i], cap), i, x) ==> #[trigger] h[x] != 0
}

pub open spec fn chain_except(h: Seq<u64>, cap: usize, hole: int) -> bool {
    forall|i: int, x: int| 0 <= i < cap && 0 <= x < cap && #[trigger] h[i] != 0 && in_range(home(h[i], cap), i, x) && x != hole
        ==> #[trigger] h[x] != 0
}

pub open spec fn settled(h: Seq<u64>, cap: usize, hole: int, j: int) -> bool {
    forall|i: int| 0 <= i < cap && #[trigger] h[i] != 0 && in_range(nxt(hole, cap as int), j, i)
        ==> !in_range(home(h[i], cap), i, hole)
}

pub open spec fn region_full(h: Seq<u64>, cap: usize, hole: int, j: int) -> bool {
    forall|x: int| 0 <= x < cap && in_range(nxt(hole, cap as int), j, x) ==> #[trigger] h[x] != 0
}

/// slot-level consistency: occupied slots hold a key whose hash is the stored hash, keys are unique
pub open spec fn slots_ok<V>(h: Seq<u64>, k: Seq<Option<Key>>, v: Seq<Option<V>>) -> bool {
    &&& forall|i: int| 0 <= i < h.len() ==> (#[trigger] h[i] != 0 <==> k[i].is_some())
    &&& forall|i: int| 0 <= i < h.len() ==> (#[trigger] h[i] != 0 <==> v[i].is_some())
    &&& forall|i: int| 0 <= i < h.len() && #[trigger] h[i] != 0 ==> h[i] == spec_hash(k[i].unwrap())
    &&& forall|i: int, j: int| 0 <= i < h.len() && 0 <= j < h.len() && i != j && #[trigger] h[i] != 0 && #[trigger] h[j] != 0 ==> k[i].unwrap() != k[j].unwrap()
}

pub open spec fn stored_at<V>(h: Seq<u64>, k: Seq<Option<Key>>, key: Key, i: int) -> bool {
    0 <= i < h.len() && h[i] != 0 && k[i] == Some(key)
}

pub open spec fn present(h: Seq<u64>, k: Seq<Option<Key>>, key: Key) -> bool {
    exists|i: int| #[trigger] stored_at::<()>(h, k, key, i)
}


proof fn lemma_present_after_clear(h0: Seq<u64>, k0: Seq<Option<Key>>, v0: Seq<Option<()>>, ind: int, key: Key)
    requires slots_ok(h0, k0, v0), stored_at::<()>(h0, k0, key, ind),
    ensures forall|k: Key| #[trigger] present(h0.update(ind, 0), k0.update(ind, None), k) <==> (k != key && present(h0, k0, k)),
{
    let h1 = h0.update(ind, 0);
    let k1 = k0.update(ind, None);
    assert forall|k: Key| #[trigger] present(h1, k1, k) <==> (k != key && present(h0, k0, k)) by {
        if present(h1, k1, k) {
            let i = choose|i: int| #[trigger] stored_at::<()>(h1, k1, k, i);
            assert(i != ind);
            assert(stored_at::<()>(h0, k0, k, i));
            if k == key { assert(h0[i] != 0 && h0[ind] != 0); assert(k0[i].unwrap() != k0[ind].unwrap()); }
        }
        if k != key && present(h0, k0, k) {
            let i = choose|i: int| #[trigger] stored_at::<()>(h0, k0, k, i);
            assert(i != ind);
            assert(stored_at::<()>(h1, k1, k, i));
        }
    }
}

proof fn lemma_present_move(h: Seq<u64>, ks: Seq<Option<Key>>, hole: int, j: int)
    requires 0 <= hole < h.len(), 0 <= j < h.len(), h.len() == ks.len(), hole != j, h[hole] == 0, h[j] != 0,
    ensures forall|k: Key| #[trigger] present(h.update(hole, h[j]).update(j, 0), ks.update(hole, ks[j]).update(j, None), k) <==> present(h, ks, k),
{
    let h2 = h.update(hole, h[j]).update(j, 0);
    let k2 = ks.update(hole, ks[j]).update(j, None);
    assert forall|k: Key| #[trigger] present(h2, k2, k) <==> present(h, ks, k) by {
        if present(h2, k2, k) {
            let i = choose|i: int| #[trigger] stored_at::<()>(h2, k2, k, i);
            if i == hole { assert(stored_at::<()>(h, ks, k, j)); } else { assert(stored_at::<()>(h, ks, k, i)); }
        }
        if present(h, ks, k) {
            let i = choose|i: int| #[trigger] stored_at::<()>(h, ks, k, i);
            if i == j { assert(stored_at::<()>(h2, k2, k, hole)); } else { assert(i != hole); assert(stored_at::<()>(h2, k2, k, i)); }
        }
    }
}

proof fn lemma_shift_move(h: Seq<u64>, cap: usize, hole: int, j: int)
    requires cap >= 1, h.len() == cap,
        0 <= hole < cap, 0 <= j < cap, hole != j, h[hole] == 0, h[j] != 0,
        chain_except(h, cap, hole),
        in_range(home(h[j], cap), j, hole),
    ensures chain_except(h.update(hole, h[j]).update(j, 0), cap, j),
{
    let h2 = h.update(hole, h[j]).update(j, 0);
    lemma_home_bound(h[j], cap);
    assert forall|i: int, x: int| 0 <= i < cap && 0 <= x < cap && #[trigger] h2[i] != 0 && in_range(home(h2[i], cap), i, x) && x != j
        implies #[trigger] h2[x] != 0 by {
        if i == hole {
            assert(in_range(home(h[j], cap), j, x));
            assert(h[j] != 0);
            assert(h[x] != 0);
        } else {
            assert(h[i] != 0);
            lemma_home_bound(h[i], cap);
            if x != hole { assert(h[x] != 0); }
        }
    }
}

proof fn lemma_shift_done(h: Seq<u64>, cap: usize, hole: int, j: int)
    requires cap >= 1, h.len() == cap,
        0 <= hole < cap, 0 <= j < cap, hole != j, h[hole] == 0, h[j] == 0,
        chain_except(h, cap, hole), settled(h, cap, hole, j),
    ensures chain(h, cap),
{
    assert forall|i: int, x: int| 0 <= i < cap && 0 <= x < cap && #[trigger] h[i] != 0 && in_range(home(h[i], cap), i, x)
        implies #[trigger] h[x] != 0 by {
        lemma_home_bound(h[i], cap);
        if x == hole {
            if in_range(nxt(hole, cap as int), j, i) {
                assert(false);
            } else {
                assert(in_range(home(h[i], cap), i, j));
                assert(h[j] != 0);
                assert(false);
            }
        }
    }
}

proof fn lemma_slots_move<V>(h: Seq<u64>, ks: Seq<Option<Key>>, vs: Seq<Option<V>>, hole: int, j: int)
    requires slots_ok(h, ks, vs), h.len() == ks.len(), h.len() == vs.len(),
        0 <= hole < h.len(), 0 <= j < h.len(), hole != j, h[hole] == 0, h[j] != 0,
    ensures slots_ok(h.update(hole, h[j]).update(j, 0), ks.update(hole, ks[j]).update(j, None), vs.update(hole, vs[j]).update(j, None)),
{
    let h2 = h.update(hole, h[j]).update(j, 0);
    let k2 = ks.update(hole, ks[j]).update(j, None);
    assert forall|a: int, b: int| 0 <= a < h2.len() && 0 <= b < h2.len() && a != b && #[trigger] h2[a] != 0 && #[trigger] h2[b] != 0
        implies k2[a].unwrap() != k2[b].unwrap() by {
        let a0 = if a == hole { j } else { a };
        let b0 = if b == hole { j } else { b };
        assert(h[a0] != 0 && h[b0] != 0 && a0 != b0);
    }
}

proof fn lemma_values_move<V>(h: Seq<u64>, ks: Seq<Option<Key>>, vs: Seq<Option<V>>, h0: Seq<u64>, k0: Seq<Option<Key>>, v0: Seq<Option<V>>, hole: int, j: int)
    requires h.len() == ks.len(), h.len() == vs.len(), h0.len() == h.len(), k0.len() == h.len(), v0.len() == h.len(),
        0 <= hole < h.len(), 0 <= j < h.len(), hole != j, h[hole] == 0, h[j] != 0,
        forall|a: int, a0: int| 0 <= a < h.len() && 0 <= a0 < h.len() && #[trigger] h[a] != 0 && #[trigger] h0[a0] != 0 && ks[a] == k0[a0] ==> vs[a] == v0[a0],
    ensures ({
        let h2 = h.update(hole, h[j]).update(j, 0);
        let k2 = ks.update(hole, ks[j]).update(j, None);
        let v2 = vs.update(hole, vs[j]).update(j, None);
        forall|a: int, a0: int| 0 <= a < h.len() && 0 <= a0 < h.len() && #[trigger] h2[a] != 0 && #[trigger] h0[a0] != 0 && k2[a] == k0[a0] ==> v2[a] == v0[a0]
    }),
{
    let h2 = h.update(hole, h[j]).update(j, 0);
    let k2 = ks.update(hole, ks[j]).update(j, None);
    let v2 = vs.update(hole, vs[j]).update(j, None);
    assert forall|a: int, a0: int| 0 <= a < h.len() && 0 <= a0 < h.len() && #[trigger] h2[a] != 0 && #[trigger] h0[a0] != 0 && k2[a] == k0[a0]
        implies v2[a] == v0[a0] by {
        let a1 = if a == hole { j } else { a };
        assert(h[a1] != 0);
        assert(ks[a1] == k0[a0]);
    }
}

impl<V> CaoHashMap<V> {
    pub closed spec fn wf(&self) -> bool {
        &&& self.capacity >= 1
        &&& self.capacity <= 0x4000_0000_0000
        &&& self.hashes@.len() == self.capacity
        &&& self.keys@.len() == self.capacity
        &&& self.values@.len() == self.capacity
        &&& self.count == occupied(self.hashes@)
        &&& self.count < self.capacity
        &&& slots_ok(self.hashes@, self.keys@, self.values@)
        &&& chain(self.hashes@, self.capacity)
    }

    pub closed spec fn view(&self) -> IMap<Key, V> {
        IMap::new(
            |k: Key| present(self.hashes@, self.keys@, k),
            |k: Key| self.values@[choose|i: int| #[trigger] stored_at::<()>(self.hashes@, self.keys@, k, i)].unwrap(),
        )
    }

    fn find_ind(&self, needle: u64, k: &Key) -> (ind: usize)
        requires self.wf(),
        ensures ind < self.capacity,
            self.hashes@[ind as int] == 0 || (self.hashes@[ind as int] == needle && self.keys@[ind as int] == Some(*k)),
            forall|x: int| 0 <= x < self.capacity && in_range(home(needle, self.capacity), ind as int, x)
                ==> #[trigger] self.hashes@[x] != 0 && !(self.hashes@[x] == needle && self.keys@[x] == Some(*k)),
    {
        let len = self.capacity;
        let mut ind = (needle.wrapping_mul(2654435769) as usize) % len;
        proof { lemma_home_bound(needle, len); lemma_exists_empty(self.hashes@); }
        let ghost start: int = ind as int;
        let ghost e: int = choose|i: int| 0 <= i < len && #[trigger] self.hashes@[i] == 0;
        loop
            invariant
                self.wf(), len == self.capacity,
                ind < len, 0 <= e < len, self.hashes@[e] == 0,
                start == home(needle, self.capacity), 0 <= start < len,
                forall|x: int| 0 <= x < len && in_range(start, ind as int, x)
                    ==> #[trigger] self.hashes@[x] != 0 && !(self.hashes@[x] == needle && self.keys@[x] == Some(*k)),
            decreases (if ind as int <= e { e - ind as int } else { e + len as int - ind as int }),
        {
            let h = self.hashes[ind];
            if h == 0 || (h == needle && self.keys[ind].unwrap() == *k) {
                return ind;
            }
            proof {
                lemma_mod_step(ind, len);
                let next: int = if ind + 1 == len { 0 } else { ind + 1 };
                if next == start {
                    assert(in_range(start, ind as int, e) || e == ind as int);
                    assert(false);
                }
                assert forall|x: int| 0 <= x < len && in_range(start, next, x)
                    implies #[trigger] self.hashes@[x] != 0 && !(self.hashes@[x] == needle && self.keys@[x] == Some(*k)) by {
                    assert(in_range(start, ind as int, x) || x == ind as int);
                }
            }
            ind = (ind + 1) % len;
        }
    }

    proof fn lemma_lookup(&self, k: Key, i: int, j: int)
        requires self.wf(), stored_at::<()>(self.hashes@, self.keys@, k, i),
            0 <= j < self.capacity,
            self.hashes@[j] == 0 || (self.hashes@[j] == spec_hash(k) && self.keys@[j] == Some(k)),
            forall|x: int| 0 <= x < self.capacity && in_range(home(spec_hash(k), self.capacity), j, x)
                ==> #[trigger] self.hashes@[x] != 0 && !(self.hashes@[x] == spec_hash(k) && self.keys@[x] == Some(k)),
        ensures i == j,
    {
        if i != j {
            assert(self.hashes@[i] == spec_hash(k));
            assert(!in_range(home(spec_hash(k), self.capacity), j, i));
            assert(in_range(home(self.hashes@[i], self.capacity), i, j));
            assert(self.hashes@[j] != 0);
            assert(false);
        }
    }

    fn get_with_hint(&self, h: u64, k: &Key) -> (r: Option<&V>)
        requires self.wf(), h == spec_hash(*k),
        ensures
            match r {
                Some(v) => self@.dom().contains(*k) && *v == self@[*k],
                None => !self@.dom().contains(*k),
            },
    {
        let i = self.find_ind(h, k);
        if self.hashes[i] != 0 {
            proof {
                assert(stored_at::<()>(self.hashes@, self.keys@, *k, i as int));
                let w = choose|w: int| #[trigger] stored_at::<()>(self.hashes@, self.keys@, *k, w);
                self.lemma_lookup(*k, w, i as int);
            }
            self.values[i].as_ref()
        } else {
            proof {
                if self@.dom().contains(*k) {
                    let w = choose|w: int| #[trigger] stored_at::<()>(self.hashes@, self.keys@, *k, w);
                    self.lemma_lookup(*k, w, i as int);
                }
            }
            None
        }
    }

    /// insert without the trailing growth check (the growth wrapper is proved separately)
    fn insert_core(&mut self, h: u64, key: Key, value: V)
        requires old(self).wf(), h == spec_hash(key), h != 0, old(self).count + 1 < old(self).capacity,
        ensures final(self).wf(),
            final(self)@ == old(self)@.insert(key, value),
            final(self).capacity == old(self).capacity,
    {
        let i = self.find_ind(h, &key);
        let ghost oh = self.hashes@;
        let ghost ok = self.keys@;
        let ghost ov = self.values@;
        let ghost oldself = *self;
        proof { lemma_occupied_update(oh, i as int, h); }
        if self.hashes[i] != 0 {
            // delete the old entry
            let _oldk = self.keys[i].take();
            let _oldv = self.values[i].take();
        } else {
            self.hashes[i] = h;
            self.count += 1;
        }
        self.keys[i] = Some(key);
        self.values[i] = Some(value);
        proof {
            let cap = self.capacity;
            let nh = self.hashes@;
            let nk = self.keys@;
            assert(nh =~= oh.update(i as int, h));
            // key was not stored anywhere else
            assert forall|a: int| 0 <= a < cap && a != i as int && #[trigger] oh[a] != 0 implies ok[a] != Some(key) by {
                if ok[a] == Some(key) {
                    assert(stored_at::<()>(oh, ok, key, a));
                    oldself.lemma_lookup(key, a, i as int);
                }
            }
            assert(slots_ok(nh, nk, self.values@));
            assert(chain(nh, cap)) by {
                assert forall|a: int, x: int| 0 <= a < cap && 0 <= x < cap && #[trigger] nh[a] != 0 && in_range(home(nh[a], cap), a, x)
                    implies #[trigger] nh[x] != 0 by {
                    if a == i as int {
                        assert(oh[x] != 0);
                    } else {
                        assert(oh[a] != 0);
                        if x != i as int { assert(oh[x] != 0); }
                    }
                }
            }
            assert(final(self)@ =~= old(self)@.insert(key, value)) by {
                assert forall|k: Key| final(self)@.dom().contains(k) <==> old(self)@.insert(key, value).dom().contains(k) by {
                    if k == key {
                        assert(stored_at::<()>(nh, nk, k, i as int));
                    } else {
                        if present(nh, nk, k) {
                            let w = choose|w: int| #[trigger] stored_at::<()>(nh, nk, k, w);
                            assert(w != i as int);
                            assert(stored_at::<()>(oh, ok, k, w));
                        }
                        if present(oh, ok, k) {
                            let w = choose|w: int| #[trigger] stored_at::<()>(oh, ok, k, w);
                            assert(w != i as int) by { if w == i as int { assert(ok[w] == Some(key)); } }
                            assert(stored_at::<()>(nh, nk, k, w));
                        }
                    }
                }
                assert forall|k: Key| final(self)@.dom().contains(k) implies #[trigger] final(self)@[k] == old(self)@.insert(key, value)[k] by {
                    let w = choose|w: int| #[trigger] stored_at::<()>(nh, nk, k, w);
                    if k == key {
                        assert(stored_at::<()>(nh, nk, k, i as int));
                        assert(w == i as int);
                    } else {
                        assert(w != i as int);
                        assert(stored_at::<()>(oh, ok, k, w));
                        let w0 = choose|w0: int| #[trigger] stored_at::<()>(oh, ok, k, w0);
                        assert(w0 == w);
                    }
                }
            }
        }
    }

    #[verifier::rlimit(60)]
    fn remove_with_hint(&mut self, hash: u64, key: &Key) -> (r: Option<V>)
        requires old(self).wf(), hash == spec_hash(*key),
        ensures final(self).wf(),
            final(self).capacity == old(self).capacity,
            final(self)@ == old(self)@.remove(*key),
            final(self).count == old(self).count - (if old(self)@.dom().contains(*key) { 1int } else { 0int }),
            match r {
                Some(v) => old(self)@.dom().contains(*key) && v == old(self)@[*key],
                None => !old(self)@.dom().contains(*key),
            },
    {
        let i = self.find_ind(hash, key);
        if self.hashes[i] == 0 {
            proof {
                if self@.dom().contains(*key) {
                    let w = choose|w: int| #[trigger] stored_at::<()>(self.hashes@, self.keys@, *key, w);
                    self.lemma_lookup(*key, w, i as int);
                }
                assert(final(self)@ =~= old(self)@.remove(*key));
            }
            return None;
        }
        let ghost h0 = self.hashes@;
        let ghost k0 = self.keys@;
        let ghost v0 = self.values@;
        proof {
            assert(stored_at::<()>(h0, k0, *key, i as int));
            let w = choose|w: int| #[trigger] stored_at::<()>(h0, k0, *key, w);
            self.lemma_lookup(*key, w, i as int);
            lemma_occupied_update(h0, i as int, 0);
            lemma_exists_empty(h0);
            lemma_present_after_clear(h0, k0, Seq::new(h0.len(), |x: int| if h0[x] != 0 { Some(()) } else { None }), i as int, *key);
        }
        let ghost e0: int = choose|x: int| 0 <= x < self.capacity && #[trigger] self.hashes@[x] == 0;
        let _k = self.keys[i].take();            // R2: drop_in_place(keys.add(i))
        let result = self.values[i].take();      // R2: ptr::read(values.add(i))
        self.hashes[i] = 0;
        self.count -= 1;

        let cap = self.capacity;
        let mut hole = i;
        proof { lemma_mod_step(i, cap); }
        let mut j = (i + 1) % cap;
        proof {
            assert(chain_except(self.hashes@, cap, hole as int)) by {
                assert forall|a: int, x: int| 0 <= a < cap && 0 <= x < cap && #[trigger] self.hashes@[a] != 0
                    && in_range(home(self.hashes@[a], cap), a, x) && x != hole as int implies #[trigger] self.hashes@[x] != 0 by {
                    assert(h0[a] != 0);
                    assert(h0[x] != 0);
                }
            }
        }
        loop
            invariant
                cap == self.capacity, cap >= 1, cap <= 0x4000_0000_0000,
                self.hashes@.len() == cap, self.keys@.len() == cap, self.values@.len() == cap, h0.len() == cap, k0.len() == cap, v0.len() == cap,
                hole < cap, j < cap, j != hole, 0 <= e0 < cap, e0 != hole as int,
                self.hashes@[e0] == 0,
                self.hashes@[hole as int] == 0,
                self.count == occupied(self.hashes@), self.count + 1 < cap,
                slots_ok(self.hashes@, self.keys@, self.values@),
                slots_ok(h0, k0, v0),
                region_full(self.hashes@, cap, hole as int, j as int),
                chain_except(self.hashes@, cap, hole as int),
                settled(self.hashes@, cap, hole as int, j as int),
                forall|k: Key| #[trigger] present(self.hashes@, self.keys@, k) <==> (k != *key && present(h0, k0, k)),
                forall|a: int, a0: int| 0 <= a < cap && 0 <= a0 < cap && #[trigger] self.hashes@[a] != 0 && #[trigger] h0[a0] != 0 && self.keys@[a] == k0[a0]
                    ==> self.values@[a] == v0[a0],
            ensures self.hashes@[j as int] == 0,
            decreases (if j as int <= e0 { e0 - j as int } else { e0 + cap as int - j as int }),
        {
            let hj = self.hashes[j];
            if hj == 0 {
                break;
            }
            let hm = (hj.wrapping_mul(2654435769) as usize) % cap;
            proof {
                lemma_home_bound(hj, cap);
                lemma_mod_step(j, cap);
                lemma_dist(j, hm, cap);
                lemma_dist(j, hole, cap);
                if nxt(j as int, cap as int) == hole as int {
                    assert(in_range(nxt(hole as int, cap as int), j as int, e0) || e0 == j as int);
                    assert(false);
                }
            }
            let ghost old_keys = self.keys@;
            let ghost old_vals = self.values@;
            if (j + cap - hm) % cap >= (j + cap - hole) % cap {
                proof {
                    let h = self.hashes@;
                    assert(in_range(home(h[j as int], cap), j as int, hole as int));
                    lemma_occupied_update(h, hole as int, hj);
                    lemma_occupied_update(h.update(hole as int, hj), j as int, 0);
                    lemma_present_move(h, self.keys@, hole as int, j as int);
                    lemma_shift_move(h, cap, hole as int, j as int);
                    lemma_slots_move(h, self.keys@, self.values@, hole as int, j as int);
                    lemma_values_move(h, self.keys@, self.values@, h0, k0, v0, hole as int, j as int);
                }
                self.hashes[hole] = hj;
                let k = self.keys[j].take();
                self.keys[hole] = k;
                let v = self.values[j].take();
                self.values[hole] = v;
                self.hashes[j] = 0;
                proof {
                    let ghost_j = j as int; let ghost_hole = hole as int;
                    assert(self.keys@ =~= old_keys.update(ghost_hole, old_keys[ghost_j]).update(ghost_j, None));
                    assert(self.values@ =~= old_vals.update(ghost_hole, old_vals[ghost_j]).update(ghost_j, None));
                }
                hole = j;
            } else {
                proof {
                    assert(!in_range(home(self.hashes@[j as int], cap), j as int, hole as int));
                }
            }
            j = (j + 1) % cap;
        }
        proof {
            lemma_shift_done(self.hashes@, cap, hole as int, j as int);
            assert(final(self)@ =~= old(self)@.remove(*key)) by {
                assert forall|k: Key| final(self)@.dom().contains(k) <==> old(self)@.remove(*key).dom().contains(k) by {
                    assert(present(self.hashes@, self.keys@, k) <==> (k != *key && present(h0, k0, k)));
                }
                assert forall|k: Key| final(self)@.dom().contains(k) implies #[trigger] final(self)@[k] == old(self)@.remove(*key)[k] by {
                    let w = choose|w: int| #[trigger] stored_at::<()>(self.hashes@, self.keys@, k, w);
                    assert(present(self.hashes@, self.keys@, k));
                    let w0 = choose|w0: int| #[trigger] stored_at::<()>(h0, k0, k, w0);
                    assert(self.keys@[w] == k0[w0]);
                }
            }
        }
        result
    }
}

} // verus!
fn main() {}

use vstd::prelude::*;
verus! {

#[derive(Clone, Copy)]
pub enum Value {
    Nil,
    Object(usize),
    Integer(i64),
    Real(u64),
}

pub enum StackError {
    Full,
    OutOfBounds { capacity: usize, index: usize },
}

pub struct ValueStack {
    count: usize,
    data: Box<[Value]>,
}

impl ValueStack {
    pub closed spec fn wf(&self) -> bool {
        self.count < self.data@.len()
    }
    pub closed spec fn view(&self) -> Seq<Value> {
        self.data@.subrange(0, self.count as int)
    }
    pub closed spec fn cap(&self) -> nat { self.data@.len() }

    #[inline]
    pub fn push(&mut self, value: Value) -> (r: Result<(), StackError>)
        requires old(self).wf(),
        ensures final(self).wf(),
            final(self).cap() == old(self).cap(),
            r.is_ok() ==> final(self)@ =~= old(self)@.push(value),
            r.is_err() ==> final(self)@ =~= old(self)@,
            old(self)@.len() + 2 <= old(self).cap() ==> r.is_ok(),
    {
        if self.count + 1 < self.data.len() {
            self.data[self.count] = value;
            self.count += 1;
            Ok(())
        } else {
            Err(StackError::Full)
        }
    }

    pub fn pop(&mut self) -> (value: Value)
        requires old(self).wf(),
        ensures final(self).wf(),
    {
        let count = self.count.saturating_sub(1);
        let value = self.data[count];
        self.count = count;
        self.data[self.count] = Value::Nil;
        value
    }
}

} // verus!
fn main() {}

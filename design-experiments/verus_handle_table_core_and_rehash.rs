use vstd::prelude::*;
verus! {

#[derive(Clone, Copy, PartialEq, Eq, Structural)]
pub struct Handle(pub u32);

pub struct HandleTable<T> {
    handles: Vec<Handle>,
    values: Vec<Option<T>>,
    count: usize,
    capacity: usize,
}

pub open spec fn occupied(s: Seq<Handle>) -> nat
    decreases s.len()
{
    if s.len() == 0 { 0 } else { occupied(s.drop_last()) + if s.last().0 != 0 { 1nat } else { 0nat } }
}

proof fn lemma_occupied_bound(s: Seq<Handle>)
    ensures occupied(s) <= s.len()
    decreases s.len()
{
    if s.len() > 0 { lemma_occupied_bound(s.drop_last()); }
}

proof fn lemma_exists_empty(s: Seq<Handle>)
    requires occupied(s) < s.len()
    ensures exists|i: int| 0 <= i < s.len() && (#[trigger] s[i]).0 == 0
    decreases s.len()
{
    if s.len() > 0 {
        if s.last().0 == 0 {
            assert(s[s.len() - 1].0 == 0);
        } else {
            lemma_occupied_bound(s.drop_last());
            lemma_exists_empty(s.drop_last());
            let i = choose|i: int| 0 <= i < s.drop_last().len() && (#[trigger] s.drop_last()[i]).0 == 0;
            assert(s[i].0 == 0);
        }
    }
}

proof fn lemma_occupied_update(s: Seq<Handle>, i: int, h: Handle)
    requires 0 <= i < s.len()
    ensures occupied(s.update(i, h)) == occupied(s) - (if s[i].0 != 0 { 1int } else { 0int }) + (if h.0 != 0 { 1int } else { 0int })
    decreases s.len()
{
    let t = s.update(i, h);
    if i == s.len() - 1 {
        assert(t.drop_last() =~= s.drop_last());
    } else {
        assert(t.drop_last() =~= s.drop_last().update(i, h));
        lemma_occupied_update(s.drop_last(), i, h);
    }
}

proof fn lemma_mask_step(ind: usize, len: usize)
    requires len >= 2, ind < len, (len & (len - 1) as usize) == 0,
    ensures ((ind + 1) as usize & (len - 1) as usize) == (if ind + 1 == len { 0usize } else { (ind + 1) as usize }),
{
    assert(((ind + 1) as usize & (len - 1) as usize) == (if ind + 1 == len { 0usize } else { (ind + 1) as usize })) by (bit_vector)
        requires len >= 2, ind < len, (len & (len - 1) as usize) == 0;
}

proof fn lemma_mask_bound(x: usize, len: usize)
    requires len >= 2, (len & (len - 1) as usize) == 0,
    ensures (x & (len - 1) as usize) < len,
{
    assert((x & (len - 1) as usize) < len) by (bit_vector)
        requires len >= 2, (len & (len - 1) as usize) == 0;
}


pub open spec fn present(h: Seq<Handle>, k: u32) -> bool { exists|i: int| 0 <= i < h.len() && (#[trigger] h[i]).0 == k }

pub open spec fn cdist(a: int, b: int, cap: int) -> int { if a >= b { a - b } else { a - b + cap } }

pub open spec fn nxt(i: int, cap: int) -> int { if i + 1 == cap { 0 } else { i + 1 } }

proof fn lemma_dist(a: usize, b: usize, cap: usize)
    requires cap >= 2, (cap & (cap - 1) as usize) == 0, a < cap, b < cap, cap <= 0x4000_0000,
    ensures (((a + cap - b) as usize) & (cap - 1) as usize) as int == cdist(a as int, b as int, cap as int),
{
    assert((((a + cap - b) as usize) & (cap - 1) as usize) == (if a >= b { (a - b) as usize } else { (a + cap - b) as usize })) by (bit_vector)
        requires cap >= 2, (cap & (cap - 1) as usize) == 0, a < cap, b < cap, cap <= 0x4000_0000;
}

/// chain property with one permitted hole
pub open spec fn chain_except(h: Seq<Handle>, cap: usize, hole: int) -> bool {
    forall|i: int, x: int| 0 <= i < cap && 0 <= x < cap && (#[trigger] h[i]).0 != 0 && in_range(home(h[i], cap), i, x) && x != hole
        ==> (#[trigger] h[x]).0 != 0
}

/// every occupied slot strictly between hole and j does not need the hole
pub open spec fn settled(h: Seq<Handle>, cap: usize, hole: int, j: int) -> bool {
    forall|i: int| 0 <= i < cap && (#[trigger] h[i]).0 != 0 && in_range(nxt(hole, cap as int), j, i)
        ==> !in_range(home(h[i], cap), i, hole)
}

pub open spec fn region_full(h: Seq<Handle>, cap: usize, hole: int, j: int) -> bool {
    forall|x: int| 0 <= x < cap && in_range(nxt(hole, cap as int), j, x) ==> (#[trigger] h[x]).0 != 0
}

proof fn lemma_home_bound(k: Handle, cap: usize)
    requires cap >= 2, (cap & (cap - 1) as usize) == 0,
    ensures 0 <= home(k, cap) < cap,
{
    lemma_mask_bound(k.0.wrapping_mul(2654435769u32) as usize, cap);
}

proof fn lemma_present_after_clear(h0: Seq<Handle>, ind: int, key: Handle)
    requires unique(h0), 0 <= ind < h0.len(), h0[ind] == key, key.0 != 0,
    ensures forall|k: u32| k != 0 ==> (#[trigger] present(h0.update(ind, Handle(0)), k) <==> (k != key.0 && present(h0, k))),
{
    let h1 = h0.update(ind, Handle(0));
    assert forall|k: u32| k != 0 implies (#[trigger] present(h1, k) <==> (k != key.0 && present(h0, k))) by {
        if present(h1, k) {
            let i = choose|i: int| 0 <= i < h1.len() && (#[trigger] h1[i]).0 == k;
            assert(i != ind);
            assert(h0[i].0 == k);
            if k == key.0 { assert(h0[i] == h0[ind]); assert(false); }
        }
        if k != key.0 && present(h0, k) {
            let i = choose|i: int| 0 <= i < h0.len() && (#[trigger] h0[i]).0 == k;
            assert(i != ind);
            assert(h1[i].0 == k);
        }
    }
}

proof fn lemma_present_move(h: Seq<Handle>, hole: int, j: int)
    requires 0 <= hole < h.len(), 0 <= j < h.len(), hole != j, h[hole].0 == 0, h[j].0 != 0,
    ensures forall|k: u32| k != 0 ==> (#[trigger] present(h.update(hole, h[j]).update(j, Handle(0)), k) <==> present(h, k)),
{
    let h2 = h.update(hole, h[j]).update(j, Handle(0));
    assert forall|k: u32| k != 0 implies (#[trigger] present(h2, k) <==> present(h, k)) by {
        if present(h2, k) {
            let i = choose|i: int| 0 <= i < h2.len() && (#[trigger] h2[i]).0 == k;
            if i == hole { assert(h[j].0 == k); } else { assert(h[i].0 == k); }
        }
        if present(h, k) {
            let i = choose|i: int| 0 <= i < h.len() && (#[trigger] h[i]).0 == k;
            if i == j { assert(h2[hole].0 == k); } else { assert(i != hole); assert(h2[i].0 == k); }
        }
    }
}

proof fn lemma_unique_move(h: Seq<Handle>, hole: int, j: int)
    requires 0 <= hole < h.len(), 0 <= j < h.len(), hole != j, h[hole].0 == 0, h[j].0 != 0, unique(h),
    ensures unique(h.update(hole, h[j]).update(j, Handle(0))),
{
    let h2 = h.update(hole, h[j]).update(j, Handle(0));
    assert forall|a: int, b: int| 0 <= a < h2.len() && 0 <= b < h2.len() && a != b && (#[trigger] h2[a]).0 != 0
        implies h2[a] != #[trigger] h2[b] by {
        let a0 = if a == hole { j } else { a };
        let b0 = if b == hole { j } else { b };
        if b != j {
            assert(h[a0].0 != 0);
            assert(a0 != b0);
            assert(h[a0] != h[b0]);
        }
    }
}

/// moving the element at j into the hole keeps the weakened chain (now with the hole at j)
proof fn lemma_shift_move(h: Seq<Handle>, cap: usize, hole: int, j: int)
    requires cap >= 2, (cap & (cap - 1) as usize) == 0, h.len() == cap,
        0 <= hole < cap, 0 <= j < cap, hole != j, h[hole].0 == 0, h[j].0 != 0,
        chain_except(h, cap, hole),
        in_range(home(h[j], cap), j, hole),
    ensures chain_except(h.update(hole, h[j]).update(j, Handle(0)), cap, j),
{
    let h2 = h.update(hole, h[j]).update(j, Handle(0));
    lemma_home_bound(h[j], cap);
    assert forall|i: int, x: int| 0 <= i < cap && 0 <= x < cap && (#[trigger] h2[i]).0 != 0 && in_range(home(h2[i], cap), i, x) && x != j
        implies (#[trigger] h2[x]).0 != 0 by {
        if i == hole {
            // x in [home, hole) is inside [home, j) and is not the hole
            assert(in_range(home(h[j], cap), j, x));
            assert(h[j].0 != 0);
            assert(h[x].0 != 0);
        } else {
            assert(h[i].0 != 0);
            lemma_home_bound(h[i], cap);
            if x != hole { assert(h[x].0 != 0); }
        }
    }
}

/// when the scan reaches an empty slot the weakened chain is the full chain
proof fn lemma_shift_done(h: Seq<Handle>, cap: usize, hole: int, j: int)
    requires cap >= 2, (cap & (cap - 1) as usize) == 0, h.len() == cap,
        0 <= hole < cap, 0 <= j < cap, hole != j, h[hole].0 == 0, h[j].0 == 0,
        chain_except(h, cap, hole), settled(h, cap, hole, j),
    ensures chain(h, cap),
{
    assert forall|i: int, x: int| 0 <= i < cap && 0 <= x < cap && (#[trigger] h[i]).0 != 0 && in_range(home(h[i], cap), i, x)
        implies (#[trigger] h[x]).0 != 0 by {
        lemma_home_bound(h[i], cap);
        if x == hole {
            // the hole is on i's path: impossible
            if in_range(nxt(hole, cap as int), j, i) {
                assert(false);
            } else {
                // i lies beyond j, so its path also crosses j, which is empty and is not the hole
                assert(in_range(home(h[i], cap), i, j));
                assert(h[j].0 != 0);
                assert(false);
            }
        }
    }
}

/// x lies in the cyclic half-open range [a, b) of a ring of any size (a == b is the empty range)
pub open spec fn in_range(a: int, b: int, x: int) -> bool {
    if a <= b { a <= x < b } else { x >= a || x < b }
}

pub open spec fn home(k: Handle, cap: usize) -> int {
    ((k.0.wrapping_mul(2654435769u32)) as usize & (cap - 1) as usize) as int
}

pub open spec fn chain(h: Seq<Handle>, cap: usize) -> bool {
    forall|i: int, x: int| 0 <= i < cap && 0 <= x < cap && (#[trigger] h[i]).0 != 0 && in_range(home(h[i], cap), i, x) ==> (#[trigger] h[x]).0 != 0
}

pub open spec fn unique(h: Seq<Handle>) -> bool {
    forall|i: int, j: int| 0 <= i < h.len() && 0 <= j < h.len() && i != j && (#[trigger] h[i]).0 != 0 ==> h[i] != #[trigger] h[j]
}

impl<T> HandleTable<T> {
    pub closed spec fn wf(&self) -> bool {
        &&& self.capacity >= 2
        &&& self.capacity <= 0x4000_0000
        &&& (self.capacity & (self.capacity - 1) as usize) == 0
        &&& self.handles@.len() == self.capacity
        &&& self.values@.len() == self.capacity
        &&& self.count == occupied(self.handles@)
        &&& self.count < self.capacity
        &&& forall|i: int| 0 <= i < self.capacity ==> ((#[trigger] self.handles@[i]).0 != 0 <==> self.values@[i].is_some())
        &&& chain(self.handles@, self.capacity)
        &&& unique(self.handles@)
    }

    pub closed spec fn view(&self) -> IMap<u32, T> {
        IMap::new(
            |k: u32| k != 0 && exists|i: int| 0 <= i < self.capacity && (#[trigger] self.handles@[i]).0 == k,
            |k: u32| self.values@[choose|i: int| 0 <= i < self.capacity && (#[trigger] self.handles@[i]).0 == k].unwrap(),
        )
    }

    fn find_ind(&self, needle: Handle) -> (ind: usize)
        requires self.wf(),
        ensures ind < self.capacity,
            self.handles@[ind as int] == needle || self.handles@[ind as int].0 == 0,
            // everything on the probe path before `ind` is occupied by other handles
            forall|x: int| 0 <= x < self.capacity && in_range(home(needle, self.capacity), ind as int, x)
                ==> (#[trigger] self.handles@[x]).0 != 0 && self.handles@[x] != needle,
    {
        let len = self.capacity;
        let len_mask = len - 1;
        let mut ind = (needle.0.wrapping_mul(2654435769) as usize) & len_mask;
        proof { lemma_mask_bound(needle.0.wrapping_mul(2654435769) as usize, len); lemma_exists_empty(self.handles@); }
        let ghost start: int = ind as int;
        let ghost e: int = choose|i: int| 0 <= i < len && (#[trigger] self.handles@[i]).0 == 0;
        loop
            invariant
                self.wf(), len == self.capacity, len_mask == len - 1,
                ind < len, 0 <= e < len, self.handles@[e].0 == 0,
                start == home(needle, self.capacity), 0 <= start < len,
                forall|x: int| 0 <= x < len && in_range(start, ind as int, x)
                    ==> (#[trigger] self.handles@[x]).0 != 0 && self.handles@[x] != needle,
            decreases (if ind as int <= e { e - ind as int } else { e + len as int - ind as int }),
        {
            let k = self.handles[ind];
            if k == needle || k.0 == 0 {
                return ind;
            }
            proof {
                lemma_mask_step(ind, len);
                let next: int = if ind + 1 == len { 0 } else { ind + 1 };
                // the scan cannot come back to start: e would have been visited
                if next == start {
                    assert(in_range(start, ind as int, e) || e == ind as int);
                    assert(false);
                }
                assert forall|x: int| 0 <= x < len && in_range(start, next, x)
                    implies (#[trigger] self.handles@[x]).0 != 0 && self.handles@[x] != needle by {
                    assert(in_range(start, ind as int, x) || x == ind as int);
                }
            }
            ind = (ind + 1) & len_mask;
        }
    }

    /// lookup lemma: if `k` is stored at slot i then the probe for k stops exactly there
    proof fn lemma_lookup(&self, k: Handle, i: int, j: int)
        requires self.wf(), k.0 != 0, 0 <= i < self.capacity, self.handles@[i] == k,
            0 <= j < self.capacity,
            self.handles@[j] == k || self.handles@[j].0 == 0,
            forall|x: int| 0 <= x < self.capacity && in_range(home(k, self.capacity), j, x)
                ==> (#[trigger] self.handles@[x]).0 != 0 && self.handles@[x] != k,
        ensures i == j,
    {
        if i != j {
            // i is not on the path before j (those slots are != k); so j is on the path before i
            // (path from home to i), hence occupied; and by uniqueness handles[j] != k: contradiction
            assert(!in_range(home(k, self.capacity), j, i));
            assert(in_range(home(k, self.capacity), i, j));
            assert(self.handles@[j].0 != 0);
            assert(self.handles@[j] == k);
            assert(false);
        }
    }

    pub fn get(&self, key: Handle) -> (r: Option<&T>)
        requires self.wf(),
        ensures
            match r {
                Some(v) => self@.dom().contains(key.0) && *v == self@[key.0],
                None => !self@.dom().contains(key.0),
            },
    {
        let ind = self.find_ind(key);
        if self.handles[ind].0 != 0 {
            proof {
                let w = choose|i: int| 0 <= i < self.capacity && (#[trigger] self.handles@[i]).0 == key.0;
                self.lemma_lookup(key, w, ind as int);
            }
            let r = self.values[ind].as_ref();
            r
        } else {
            proof {
                if self@.dom().contains(key.0) {
                    let w = choose|i: int| 0 <= i < self.capacity && (#[trigger] self.handles@[i]).0 == key.0;
                    self.lemma_lookup(key, w, ind as int);
                }
            }
            None
        }
    }

    fn _insert(&mut self, key: Handle, value: T)
        requires old(self).wf(), key.0 != 0, old(self).count + 1 < old(self).capacity,
        ensures final(self).wf(),
            final(self)@ == old(self)@.insert(key.0, value),
            final(self).capacity == old(self).capacity,
            final(self).count == old(self).count + (if old(self)@.dom().contains(key.0) { 0int } else { 1int }),
    {
        let ind = self.find_ind(key);
        proof {
            if self@.dom().contains(key.0) {
                let w = choose|i: int| 0 <= i < self.capacity && (#[trigger] self.handles@[i]).0 == key.0;
                self.lemma_lookup(key, w, ind as int);
            }
        }
        let is_new_key = self.handles[ind].0 == 0;
        proof {
            lemma_occupied_update(self.handles@, ind as int, key);
            if !is_new_key { assert(self.handles@[ind as int] == key); }
        }
        if is_new_key { self.count += 1; }
        let ghost oldh = self.handles@;
        let ghost oldself = *self;
        self.handles[ind] = key;
        self.values[ind] = Some(value);
        proof {
            let cap = self.capacity;
            let h = self.handles@;
            // uniqueness: key was not present elsewhere
            assert forall|i: int, j: int| 0 <= i < h.len() && 0 <= j < h.len() && i != j && (#[trigger] h[i]).0 != 0
                implies h[i] != #[trigger] h[j] by {
                if h[i] == key && h[j] == key {
                    let other = if i == ind as int { j } else { i };
                    assert(oldh[other] == key);
                    oldself.lemma_lookup(key, other, ind as int);
                }
            }
            assert(chain(h, cap)) by {
                assert forall|i: int, x: int| 0 <= i < cap && 0 <= x < cap && (#[trigger] h[i]).0 != 0 && in_range(home(h[i], cap), i, x)
                    implies (#[trigger] h[x]).0 != 0 by {
                    if i == ind as int {
                        assert(oldh[x].0 != 0);
                    } else {
                        assert(oldh[i].0 != 0);
                        if x != ind as int { assert(oldh[x].0 != 0); }
                    }
                }
            }
            assert(final(self)@ =~= old(self)@.insert(key.0, value)) by {
                assert forall|k: u32| final(self)@.dom().contains(k) <==> old(self)@.insert(key.0, value).dom().contains(k) by {
                    if k == key.0 {
                        assert(h[ind as int].0 == k);
                    } else {
                        if final(self)@.dom().contains(k) {
                            let w = choose|i: int| 0 <= i < cap && (#[trigger] h[i]).0 == k;
                            assert(oldh[w].0 == k);
                        }
                        if old(self)@.dom().contains(k) {
                            let w = choose|i: int| 0 <= i < cap && (#[trigger] oldh[i]).0 == k;
                            assert(h[w].0 == k);
                        }
                    }
                }
                assert forall|k: u32| final(self)@.dom().contains(k) implies #[trigger] final(self)@[k] == old(self)@.insert(key.0, value)[k] by {
                    let w = choose|i: int| 0 <= i < cap && (#[trigger] h[i]).0 == k;
                    if k == key.0 {
                        assert(w == ind as int);
                    } else {
                        assert(oldh[w].0 == k);
                        let w0 = choose|i: int| 0 <= i < cap && (#[trigger] oldh[i]).0 == k;
                        assert(w0 == w);
                    }
                }
            }
        }
    }

    fn remove(&mut self, key: Handle) -> (r: Option<T>)
        requires old(self).wf(),
        ensures final(self).wf(),
            final(self).capacity == old(self).capacity,
            final(self)@ == old(self)@.remove(key.0),
            match r {
                Some(v) => old(self)@.dom().contains(key.0) && v == old(self)@[key.0],
                None => !old(self)@.dom().contains(key.0),
            },
    {
        let ind = self.find_ind(key);
        if self.handles[ind].0 == 0 {
            proof {
                if self@.dom().contains(key.0) {
                    let w = choose|i: int| 0 <= i < self.capacity && (#[trigger] self.handles@[i]).0 == key.0;
                    self.lemma_lookup(key, w, ind as int);
                }
                assert(final(self)@ =~= old(self)@.remove(key.0));
            }
            return None;
        }
        let ghost h0 = self.handles@;
        let ghost v0 = self.values@;
        proof {
            lemma_occupied_update(h0, ind as int, Handle(0));
            lemma_exists_empty(h0);
            lemma_present_after_clear(h0, ind as int, key);
        }
        let ghost e0: int = choose|i: int| 0 <= i < self.capacity && (#[trigger] self.handles@[i]).0 == 0;
        self.count -= 1;
        self.handles[ind] = Handle(0);
        let result = self.values[ind].take();

        let mask = self.capacity - 1;
        let cap = self.capacity;
        let mut hole = ind;
        proof { lemma_mask_step(ind, cap); }
        let mut j = (ind + 1) & mask;
        proof {
            assert(chain_except(self.handles@, cap, hole as int)) by {
                assert forall|i: int, x: int| 0 <= i < cap && 0 <= x < cap && (#[trigger] self.handles@[i]).0 != 0
                    && in_range(home(self.handles@[i], cap), i, x) && x != hole as int implies (#[trigger] self.handles@[x]).0 != 0 by {
                    assert(h0[i].0 != 0);
                    assert(h0[x].0 != 0);
                }
            }
            assert(unique(self.handles@)) by {
                assert forall|a: int, b: int| 0 <= a < cap && 0 <= b < cap && a != b && (#[trigger] self.handles@[a]).0 != 0
                    implies self.handles@[a] != #[trigger] self.handles@[b] by {
                    assert(h0[a].0 != 0);
                    if b != ind as int { assert(h0[a] != h0[b]); }
                }
            }
        }
        loop
            invariant
                cap == self.capacity, mask == cap - 1, cap >= 2, cap <= 0x4000_0000, (cap & (cap - 1) as usize) == 0,
                self.handles@.len() == cap, self.values@.len() == cap, h0.len() == cap, v0.len() == cap,
                hole < cap, j < cap, j != hole, 0 <= e0 < cap, e0 != hole as int,
                self.handles@[e0].0 == 0,
                self.handles@[hole as int].0 == 0,
                self.count == occupied(self.handles@), self.count + 1 < cap,
                forall|i: int| 0 <= i < cap ==> ((#[trigger] self.handles@[i]).0 != 0 <==> self.values@[i].is_some()),
                unique(self.handles@),
                region_full(self.handles@, cap, hole as int, j as int),
                chain_except(self.handles@, cap, hole as int),
                settled(self.handles@, cap, hole as int, j as int),
                forall|k: u32| k != 0 ==> (#[trigger] present(self.handles@, k) <==> (k != key.0 && present(h0, k))),
                forall|i: int, i0: int| 0 <= i < cap && 0 <= i0 < cap && (#[trigger] self.handles@[i]).0 != 0 && self.handles@[i] == #[trigger] h0[i0]
                    ==> self.values@[i] == v0[i0],
            ensures self.handles@[j as int].0 == 0,
            decreases (if j as int <= e0 { e0 - j as int } else { e0 + cap as int - j as int }),
        {
            let k = self.handles[j];
            if k.0 == 0 {
                break;
            }
            let hm = (k.0.wrapping_mul(2654435769) as usize) & mask;
            proof {
                lemma_mask_bound(k.0.wrapping_mul(2654435769) as usize, cap);
                lemma_mask_step(j, cap);
                lemma_dist(j, hm, cap);
                lemma_dist(j, hole, cap);
                // the scan cannot wrap onto the hole: e0 would be inside the full region
                if nxt(j as int, cap as int) == hole as int {
                    assert(in_range(nxt(hole as int, cap as int), j as int, e0) || e0 == j as int);
                    assert(false);
                }
            }
            if ((j + cap - hm) & mask) >= ((j + cap - hole) & mask) {
                proof {
                    let h = self.handles@;
                    assert(in_range(home(h[j as int], cap), j as int, hole as int));
                    lemma_occupied_update(h, hole as int, k);
                    lemma_occupied_update(h.update(hole as int, k), j as int, Handle(0));
                    lemma_present_move(h, hole as int, j as int);
                    lemma_unique_move(h, hole as int, j as int);
                    lemma_shift_move(h, cap, hole as int, j as int);
                }
                self.handles[hole] = k;
                let v = self.values[j].take();
                self.values[hole] = v;
                self.handles[j] = Handle(0);
                hole = j;
            } else {
                proof {
                    assert(!in_range(home(self.handles@[j as int], cap), j as int, hole as int));
                }
            }
            j = (j + 1) & mask;
        }
        proof {
            lemma_shift_done(self.handles@, cap, hole as int, j as int);
            assert(final(self)@ =~= old(self)@.remove(key.0)) by {
                assert forall|k: u32| final(self)@.dom().contains(k) <==> old(self)@.remove(key.0).dom().contains(k) by {
                    if k != 0 {
                        assert(present(self.handles@, k) <==> (k != key.0 && present(h0, k)));
                    }
                }
                assert forall|k: u32| final(self)@.dom().contains(k) implies #[trigger] final(self)@[k] == old(self)@.remove(key.0)[k] by {
                    let w = choose|i: int| 0 <= i < cap && (#[trigger] self.handles@[i]).0 == k;
                    assert(present(self.handles@, k));
                    let w0 = choose|i: int| 0 <= i < cap && (#[trigger] h0[i]).0 == k;
                    assert(self.handles@[w] == h0[w0]);
                }
            }
        }
        result
    }

    /// number of occupied slots among the first i
    pub open spec fn occ_prefix(h: Seq<Handle>, i: int) -> nat { occupied(h.take(i)) }

    proof fn lemma_occ_prefix_step(h: Seq<Handle>, i: int)
        requires 0 <= i < h.len(),
        ensures Self::occ_prefix(h, i + 1) == Self::occ_prefix(h, i) + (if h[i].0 != 0 { 1nat } else { 0nat }),
    {
        assert(h.take(i + 1).drop_last() =~= h.take(i));
        assert(h.take(i + 1).last() == h[i]);
    }

    proof fn lemma_occ_prefix_mono(h: Seq<Handle>, i: int)
        requires 0 <= i <= h.len(),
        ensures Self::occ_prefix(h, i) <= occupied(h),
        decreases h.len() - i,
    {
        if i < h.len() {
            Self::lemma_occ_prefix_step(h, i);
            Self::lemma_occ_prefix_mono(h, i + 1);
        } else {
            assert(h.take(i) =~= h);
        }
    }

    // R2 stub for alloc_storage: fresh zeroed handle array and uninitialised value array, or Err
    #[verifier::external_body]
    fn alloc_storage(capacity: usize) -> (r: Result<(Vec<Handle>, Vec<Option<T>>), ()>)
        ensures r matches Ok((k, v)) ==> k@.len() == capacity && v@.len() == capacity
            && (forall|i: int| 0 <= i < capacity ==> (#[trigger] k@[i]).0 == 0)
            && (forall|i: int| 0 <= i < capacity ==> (#[trigger] v@[i]).is_none()),
    { unimplemented!() }

    // Kani-proved leaf contract (K✓) of the real pad_pot, after .max(4)
    #[verifier::external_body]
    fn pad_pot_max4(cap: usize) -> (r: usize)
        requires 2 <= cap <= 0x2000_0000,
        ensures r >= cap, r >= 4, r <= 0x4000_0000, (r & (r - 1) as usize) == 0,
    { unimplemented!() }

    proof fn lemma_empty_wf_parts(h: Seq<Handle>, cap: usize)
        requires h.len() == cap, forall|i: int| 0 <= i < cap ==> (#[trigger] h[i]).0 == 0,
        ensures occupied(h) == 0, chain(h, cap), unique(h),
        decreases h.len()
    {
        if h.len() > 0 {
            let t = h.drop_last();
            assert forall|i: int| 0 <= i < t.len() implies (#[trigger] t[i]).0 == 0 by { assert(h[i].0 == 0); }
            Self::lemma_empty_occ(h);
        }
    }

    proof fn lemma_empty_occ(h: Seq<Handle>)
        requires forall|i: int| 0 <= i < h.len() ==> (#[trigger] h[i]).0 == 0,
        ensures occupied(h) == 0,
        decreases h.len()
    {
        if h.len() > 0 {
            let t = h.drop_last();
            assert forall|i: int| 0 <= i < t.len() implies (#[trigger] t[i]).0 == 0 by { assert(h[i].0 == 0); }
            Self::lemma_empty_occ(t);
            assert(h.last() == h[h.len() - 1]);
        }
    }

    fn adjust_capacity(&mut self, capacity: usize) -> (r: Result<(), ()>)
        requires old(self).wf(), 2 <= capacity <= 0x2000_0000, capacity > old(self).capacity,
        ensures final(self).wf(), final(self)@ == old(self)@,
            r.is_ok() ==> final(self).capacity >= capacity,
            r.is_err() ==> final(self).capacity == old(self).capacity,
    {
        let capacity = Self::pad_pot_max4(capacity);
        let (mut keys, mut values) = Self::alloc_storage(capacity)?;
        std::mem::swap(&mut self.handles, &mut keys);
        std::mem::swap(&mut self.values, &mut values);
        let old_cap = self.capacity;
        self.count = 0;
        self.capacity = capacity;
        proof {
            Self::lemma_empty_wf_parts(self.handles@, capacity);
            assert(self.wf());
        }
        let ghost ov = values@;
        let mut i = 0;
        while i < old_cap
            invariant
                i <= old_cap, old_cap == old(self).capacity, keys@ == old(self).handles@, keys@.len() == old_cap,
                values@.len() == old_cap, ov == old(self).values@,
                old(self).wf(),
                self.wf(), self.capacity == capacity, capacity > old_cap,
                self.count == Self::occ_prefix(keys@, i as int),
                forall|j: int| i <= j < old_cap ==> #[trigger] values@[j] == ov[j],
                // the new table holds exactly the entries found in slots < i of the old arrays
                forall|k: u32| #[trigger] self@.dom().contains(k) <==> (k != 0 && exists|j: int| 0 <= j < i && (#[trigger] keys@[j]).0 == k),
                forall|j: int| 0 <= j < i && (#[trigger] keys@[j]).0 != 0 ==> self@[keys@[j].0] == ov[j].unwrap(),
            decreases old_cap - i,
        {
            let key = keys[i];
            proof {
                Self::lemma_occ_prefix_step(keys@, i as int);
                Self::lemma_occ_prefix_mono(keys@, i as int + 1);
            }
            if key.0 != 0 {
                let value: T = values[i].take().unwrap();
                let ghost before = self@;
                proof {
                    if before.dom().contains(key.0) {
                        let j = choose|j: int| 0 <= j < i && (#[trigger] keys@[j]).0 == key.0;
                        assert(keys@[j] == keys@[i as int]);
                        assert(false);
                    }
                }
                self._insert(key, value);
                proof {
                    assert forall|k: u32| #[trigger] self@.dom().contains(k) <==> (k != 0 && exists|j: int| 0 <= j < i + 1 && (#[trigger] keys@[j]).0 == k) by {
                        if k == key.0 { assert(keys@[i as int].0 == k); }
                        else if before.dom().contains(k) {
                            let j = choose|j: int| 0 <= j < i && (#[trigger] keys@[j]).0 == k;
                            assert(keys@[j].0 == k);
                        }
                    }
                    assert forall|j: int| 0 <= j < i + 1 && (#[trigger] keys@[j]).0 != 0 implies self@[keys@[j].0] == ov[j].unwrap() by {
                        if j < i {
                            // distinct slots hold distinct handles in the old table
                            assert(keys@[j] != keys@[i as int]);
                        }
                    }
                }
            } else {
                proof {
                    assert forall|k: u32| #[trigger] self@.dom().contains(k) <==> (k != 0 && exists|j: int| 0 <= j < i + 1 && (#[trigger] keys@[j]).0 == k) by {
                        if self@.dom().contains(k) {
                            let j = choose|j: int| 0 <= j < i && (#[trigger] keys@[j]).0 == k;
                            assert(keys@[j].0 == k);
                        }
                    }
                }
            }
            i += 1;
        }
        proof {
            assert(final(self)@ =~= old(self)@) by {
                assert forall|k: u32| final(self)@.dom().contains(k) <==> old(self)@.dom().contains(k) by {
                    if old(self)@.dom().contains(k) {
                        let j = choose|j: int| 0 <= j < old_cap && (#[trigger] old(self).handles@[j]).0 == k;
                        assert(keys@[j].0 == k);
                    }
                }
                assert forall|k: u32| final(self)@.dom().contains(k) implies #[trigger] final(self)@[k] == old(self)@[k] by {
                    let j = choose|j: int| 0 <= j < old_cap && (#[trigger] keys@[j]).0 == k;
                    let j0 = choose|j0: int| 0 <= j0 < old_cap && (#[trigger] old(self).handles@[j0]).0 == k;
                    assert(j0 == j) by { if j0 != j { assert(old(self).handles@[j0] != old(self).handles@[j]); } }
                }
            }
        }
        Ok(())
    }
}

} // verus!
fn main() {}

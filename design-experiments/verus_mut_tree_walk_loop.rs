use vstd::prelude::*;
verus! {

pub struct Node { pub val: u64, pub kids: Vec<Node> }

impl Node {
    pub open spec fn resolve(&self, path: Seq<u32>) -> Option<Node>
        decreases path.len()
    {
        if path.len() == 0 { Some(*self) }
        else if (path[0] as int) < self.kids@.len() { self.kids@[path[0] as int].resolve(path.drop_first()) }
        else { None }
    }

    fn get_child_mut(&mut self, i: usize) -> (r: Option<&mut Node>)
        ensures
            i >= old(self).kids@.len() ==> r.is_none() && *final(self) == *old(self),
    {
        if i < self.kids.len() { Some(&mut self.kids[i]) } else { None }
    }

    fn walk_mut(&mut self, path: &Vec<u32>) -> (r: Option<&mut Node>)
    {
        let mut card = self;
        let mut d: usize = 0;
        while d < path.len()
            invariant d <= path.len(),
            decreases path.len() - d,
        {
            match card.get_child_mut(path[d] as usize) {
                Some(c) => { card = c; }
                None => return None,
            }
            d += 1;
        }
        Some(card)
    }
}

} // verus!
fn main() {}

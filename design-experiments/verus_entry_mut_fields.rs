use vstd::prelude::*;
verus! {

pub struct Tab {
    handles: Vec<u32>,
    values: Vec<Option<u64>>,
    count: usize,
}

pub struct Entry<'a> {
    key: u32,
    pl: EntryPayload<'a>,
}

enum EntryPayload<'a> {
    Occupied(&'a mut Option<u64>),
    Vacant {
        key: &'a mut u32,
        value: &'a mut Option<u64>,
        count: &'a mut usize,
    },
}

impl Tab {
    fn entry(&mut self, key: u32, ind: usize) -> (e: Entry<'_>)
        requires ind < old(self).handles@.len(), old(self).handles@.len() == old(self).values@.len(),
    {
        let pl = if self.handles[ind] != key {
            EntryPayload::Vacant {
                key: &mut self.handles[ind],
                value: &mut self.values[ind],
                count: &mut self.count,
            }
        } else {
            EntryPayload::Occupied(&mut self.values[ind])
        };
        Entry { key, pl }
    }
}

} // verus!
fn main() {}

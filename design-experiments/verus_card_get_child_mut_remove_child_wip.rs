use vstd::prelude::*;
verus! {

pub struct CardId(pub u64);
pub struct UnaryExpression { pub card: Box<Card> }
pub struct DynamicJump { pub args: Vec<Card>, pub function: Card }
pub struct CompositeCard { pub ty: String, pub cards: Vec<Card> }
pub struct Card { pub id: CardId, pub body: CardBody }
pub enum CardBody {
    Add(Box<[Card; 2]>),
    Not(UnaryExpression),
    ScalarNil,
    ScalarInt(i64),
    IfElse(Box<[Card; 3]>),
    Array(Vec<Card>),
    CompositeCard(Box<CompositeCard>),
    DynamicCall(Box<DynamicJump>),
}

pub assume_specification<T>[core::mem::replace::<T>](dest: &mut T, src: T) -> (r: T)
    ensures r == *old(dest), *final(dest) == src;

// R1/stub: fresh ids come from a global atomic counter
#[verifier::external_body]
fn placeholder_nil() -> (c: Card)
    ensures c.body == CardBody::ScalarNil,
{ unimplemented!() }

impl Card {
    pub open spec fn children(&self) -> Seq<Card> {
        match &self.body {
            CardBody::Add(b) => b@,
            CardBody::Not(u) => seq![*u.card],
            CardBody::ScalarNil => seq![],
            CardBody::ScalarInt(_) => seq![],
            CardBody::IfElse(t) => t@,
            CardBody::Array(a) => a@,
            CardBody::CompositeCard(c) => c.cards@,
            CardBody::DynamicCall(j) => seq![j.function] + j.args@,
        }
    }

    /// list-like parents grow/shrink; the others have fixed slots
    pub open spec fn is_list(&self) -> bool {
        match &self.body {
            CardBody::Array(_) | CardBody::CompositeCard(_) => true,
            _ => false,
        }
    }

    pub fn get_child_mut(&mut self, i: usize) -> (r: Option<&mut Card>)
        ensures
            i >= old(self).children().len() ==> r.is_none() && *final(self) == *old(self),
            i < old(self).children().len() ==> r.is_some() && *r.unwrap() == old(self).children()[i as int]
                && final(self).children() =~= old(self).children().update(i as int, *final(r.unwrap())),
    {
        let res;
        match &mut self.body {
            CardBody::CompositeCard(c) => res = c.cards.get_mut(i)?,
            CardBody::IfElse(children) => { if i < 3 { return Some(&mut children[i]); } else { return None; } }
            CardBody::Add(expr) => { if i < 2 { return Some(&mut expr[i]); } else { return None; } }
            CardBody::Not(expr) => match i {
                0 => res = &mut expr.card,
                _ => return None,
            },
            CardBody::Array(cards) => return cards.get_mut(i),
            CardBody::DynamicCall(j) => {
                if i == 0 { return Some(&mut j.function); } else { return j.args.get_mut(i - 1); }
            }
            CardBody::ScalarNil | CardBody::ScalarInt(_) => return None,
        }
        Some(res)
    }

    pub fn remove_child(&mut self, i: usize) -> (r: Option<Card>)
        ensures
            i >= old(self).children().len() ==> r.is_none() && *final(self) == *old(self),
            i < old(self).children().len() ==> r == Some(old(self).children()[i as int]),
            i < old(self).children().len() && old(self).is_list() ==> final(self).children() =~= old(self).children().remove(i as int),
            i < old(self).children().len() && !old(self).is_list() ==> final(self).children().len() == old(self).children().len()
                && final(self).children()[i as int].body == CardBody::ScalarNil
                && (forall|j: int| 0 <= j < old(self).children().len() && j != i ==> final(self).children()[j] == old(self).children()[j]),
    {
        let res;
        match &mut self.body {
            CardBody::CompositeCard(c) => {
                if c.cards.len() <= i {
                    return None;
                }
                res = c.cards.remove(i);
            }
            CardBody::IfElse(children) => {
                if i >= 3 { return None; }
                let c = &mut children[i];
                res = std::mem::replace(c, placeholder_nil());
            }
            CardBody::Add(_) | CardBody::Not(_) => {
                let c = self.get_child_mut(i)?;
                res = std::mem::replace(c, placeholder_nil());
            }
            CardBody::Array(cards) => { if i < cards.len() { return Some(cards.remove(i)); } else { return None; } }
            CardBody::DynamicCall(j) => {
                if i == 0 {
                    res = std::mem::replace(&mut j.function, placeholder_nil());
                } else if i - 1 < j.args.len() {
                    res = j.args.remove(i - 1);
                } else {
                    return None;
                }
            }
            CardBody::ScalarNil | CardBody::ScalarInt(_) => return None,
        }
        Some(res)
    }
}

} // verus!
fn main() {}

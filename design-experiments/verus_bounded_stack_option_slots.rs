use vstd::prelude::*;
verus! {

pub enum StackError { Full }

pub struct BoundedStack<T> {
    head: usize,
    capacity: usize,
    storage: Vec<Option<T>>,   // R2: Box<[MaybeUninit<T>]>; Some = initialised
}

impl<T> BoundedStack<T> {
    pub closed spec fn wf(&self) -> bool {
        &&& self.head <= self.capacity
        &&& self.capacity == self.storage@.len()
        &&& forall|i: int| 0 <= i < self.head ==> (#[trigger] self.storage@[i]).is_some()
        &&& forall|i: int| self.head <= i < self.capacity ==> (#[trigger] self.storage@[i]).is_none()
    }
    pub closed spec fn view(&self) -> Seq<T> {
        Seq::new(self.head as nat, |i: int| self.storage@[i].unwrap())
    }
    pub closed spec fn cap(&self) -> nat { self.capacity as nat }

    fn push(&mut self, val: T) -> (r: Result<(), StackError>)
        requires old(self).wf(),
        ensures final(self).wf(), final(self).cap() == old(self).cap(),
            old(self)@.len() < old(self).cap() <==> r.is_ok(),
            r.is_ok() ==> final(self)@ =~= old(self)@.push(val),
            r.is_err() ==> final(self)@ =~= old(self)@,
    {
        if self.head >= self.capacity {
            return Err(StackError::Full);
        }
        // R2: ptr::write(self.storage.get_unchecked_mut(self.head).as_mut_ptr(), val)
        assert(self.storage@[self.head as int].is_none());   // obligation: no overwrite of a live element (leak)
        self.storage[self.head] = Some(val);
        self.head += 1;
        Ok(())
    }

    fn pop(&mut self) -> (r: Option<T>)
        requires old(self).wf(),
        ensures final(self).wf(), final(self).cap() == old(self).cap(),
            old(self)@.len() == 0 ==> r.is_none() && final(self)@ =~= old(self)@,
            old(self)@.len() > 0 ==> r == Some(old(self)@.last()) && final(self)@ =~= old(self)@.drop_last(),
    {
        // R3: (self.head > 0).then(|| { .. })
        if self.head > 0 {
            Some({
                self.head -= 1;
                // R2: ptr::read(self.storage.get_unchecked(self.head).as_ptr())
                self.storage[self.head].take().unwrap()
            })
        } else {
            None
        }
    }

    fn clear(&mut self)
        requires old(self).wf(),
        ensures final(self).wf(), final(self)@.len() == 0, final(self).cap() == old(self).cap(),
    {
        // needs_drop::<T>() branch: R2 treats it as true (the conservative case)
        let n = self.head;
        let mut i = 0;
        // R3: for i in 0..self.head
        while i < n
            invariant
                n == self.head, self.head <= self.capacity, self.capacity == self.storage@.len(), i <= n,
                forall|x: int| 0 <= x < i ==> (#[trigger] self.storage@[x]).is_none(),
                forall|x: int| i <= x < n ==> (#[trigger] self.storage@[x]).is_some(),
                forall|x: int| n <= x < self.capacity ==> (#[trigger] self.storage@[x]).is_none(),
            decreases n - i,
        {
            // R2: drop_in_place(self.storage.get_unchecked_mut(i).as_mut_ptr())
            let _dropped = self.storage[i].take().unwrap();
            i += 1;
        }
        self.head = 0;
    }
}

} // verus!
fn main() {}

use vstd::prelude::*;
verus! {

pub struct UnaryExpression { pub card: Box<Card> }
pub struct DynamicJump { pub args: Vec<Card>, pub function: Card }
pub struct Card { pub id: u64, pub body: CardBody }
pub enum CardBody {
    Add(Box<[Card; 2]>),
    Not(UnaryExpression),
    ScalarNil,
    IfElse(Box<[Card; 3]>),
    Array(Vec<Card>),
    DynamicCall(Box<DynamicJump>),
}

pub assume_specification<T, F: FnOnce() -> Option<T>>[Option::<T>::or_else](o: Option<T>, f: F) -> (r: Option<T>)
    requires o.is_none() ==> f.requires(()),
    ensures o.is_some() ==> r == o, o.is_none() ==> f.ensures((), r);

pub assume_specification<T>[bool::then_some](b: bool, t: T) -> (r: Option<T>)
    ensures r == (if b { Some(t) } else { None });

impl Card {
    pub open spec fn children(&self) -> Seq<Card> {
        match &self.body {
            CardBody::Add(b) => b@,
            CardBody::Not(u) => seq![*u.card],
            CardBody::ScalarNil => seq![],
            CardBody::IfElse(t) => t@,
            CardBody::Array(a) => a@,
            CardBody::DynamicCall(j) => seq![j.function] + j.args@,
        }
    }

    pub fn num_children(&self) -> (n: u32)
        requires self.children().len() <= u32::MAX
        ensures n == self.children().len()
    {
        match &self.body {
            CardBody::Add(_b) => 2,
            CardBody::Not(UnaryExpression { .. }) => 1,
            CardBody::ScalarNil => 0,
            CardBody::IfElse(_t) => 3,
            CardBody::Array(a) => a.len() as u32,
            CardBody::DynamicCall(c) => 1 + c.args.len() as u32,
        }
    }

    pub fn get_child(&self, i: usize) -> (r: Option<&Card>)
        ensures
            i < self.children().len() ==> r == Some(&self.children()[i as int]),
            i >= self.children().len() ==> r.is_none(),
    {
        let res;
        match &self.body {
            CardBody::Add(expr) => return expr.get(i),
            CardBody::IfElse(children) => return children.get(i),
            CardBody::Not(expr) => match i {
                0 => res = &expr.card,
                _ => return None,
            },
            CardBody::DynamicCall(j) => {
                return (i == 0)
                    .then_some(&j.function)
                    .or_else(|| j.args.get(i - 1))
            }
            CardBody::Array(cards) => return cards.get(i),
            CardBody::ScalarNil => return None,
        }
        Some(res)
    }
}

} // verus!
fn main() {}

use vstd::prelude::*;
verus! {

// R1: Value::Object(NonNull<CaoLangObject>) -> Object(ObjRef)
#[derive(Clone, Copy)]
pub struct ObjRef(pub usize);

#[derive(Clone, Copy)]
pub enum Value {
    Nil,
    Object(ObjRef),
    Integer(i64),
    Real(f64),
}

pub enum StackError {
    Full,
    OutOfBounds { capacity: usize, index: usize },
}

pub struct ValueStack {
    count: usize,
    data: Box<[Value]>,
}

pub assume_specification<T>[core::mem::replace::<T>](dest: &mut T, src: T) -> (r: T)
    ensures r == *old(dest), *final(dest) == src;

impl ValueStack {
    pub closed spec fn wf(&self) -> bool {
        self.count < self.data@.len()
    }
    pub closed spec fn view(&self) -> Seq<Value> {
        self.data@.subrange(0, self.count as int)
    }
    pub closed spec fn cap(&self) -> nat { self.data@.len() }

    // ---- push (R1: T = Value, `.into()` erased)
    fn push(&mut self, value: Value) -> (r: Result<(), StackError>)
        requires old(self).wf(),
        ensures final(self).wf(), final(self).cap() == old(self).cap(),
            r.is_ok() <==> old(self)@.len() + 2 <= old(self).cap(),
            r.is_ok() ==> final(self)@ =~= old(self)@.push(value),
            r.is_err() ==> final(self)@ =~= old(self)@,
    {
        if self.count + 1 < self.data.len() {
            self.data[self.count] = value;
            self.count += 1;
            Ok(())
        } else {
            Err(StackError::Full)
        }
    }

    fn clear(&mut self)
        requires old(self).wf(),
        ensures final(self).wf(), final(self)@.len() == 0, final(self).cap() == old(self).cap(),
    {
        self.count = 0;
        self.data[0] = Value::Nil;
    }

    fn len(&self) -> (n: usize)
        requires self.wf(),
        ensures n == self@.len(),
    {
        self.count
    }

    // the property: popping an empty stack yields nil and leaves it empty
    fn pop(&mut self) -> (value: Value)
        requires old(self).wf(),
        ensures final(self).wf(), final(self).cap() == old(self).cap(),
            old(self)@.len() > 0 ==> value == old(self)@.last() && final(self)@ =~= old(self)@.drop_last(),
            old(self)@.len() == 0 ==> value == Value::Nil && final(self)@.len() == 0,
    {
        let count = self.count.saturating_sub(1);
        let value = self.data[count];
        self.count = count;
        self.data[self.count] = Value::Nil;
        value
    }

    fn pop_n<const N: usize>(&mut self) -> (result: [Value; N])
        requires old(self).wf(),
        ensures final(self).wf(), final(self).cap() == old(self).cap(),
            forall|i: int| 0 <= i < N && i < old(self)@.len() ==> result@[i] == old(self)@[old(self)@.len() - 1 - i],
            forall|i: int| old(self)@.len() <= i < N ==> result@[i] == Value::Nil,
            final(self)@ =~= old(self)@.take(if N as int <= old(self)@.len() { old(self)@.len() - N as int } else { 0 }),
    {
        let mut result = [Value::Nil; N];
        let n = self.count.min(N);
        let mut i = 0;
        // R3: for i in 0..n
        while i < n
            invariant
                self.wf(), *self == *old(self), n <= self.count, n <= N, i <= n,
                forall|x: int| 0 <= x < i ==> result@[x] == self@[self@.len() - 1 - x],
                forall|x: int| i <= x < N ==> result@[x] == Value::Nil,
            decreases n - i,
        {
            result[i] = self.data[self.count - i - 1];
            i += 1;
        }
        self.count -= n;
        result
    }

    fn pop_w_offset(&mut self, offset: usize) -> (value: Value)
        requires old(self).wf(),
        ensures final(self).wf(), final(self).cap() == old(self).cap(),
            old(self)@.len() <= offset ==> value == Value::Nil && final(self)@ =~= old(self)@,
            old(self)@.len() > offset ==> value == old(self)@.last() && final(self)@ =~= old(self)@.drop_last(),
    {
        if self.count <= offset {
            return Value::Nil;
        }
        self.pop()
    }

    fn set(&mut self, index: usize, value: Value) -> (r: Result<Value, StackError>)
        requires old(self).wf(),
        ensures final(self).wf(), final(self).cap() == old(self).cap(),
            index > old(self)@.len() ==> r.is_err() && final(self)@ =~= old(self)@,
            index == old(self)@.len() ==> (r.is_ok() <==> old(self)@.len() + 2 <= old(self).cap())
                && (r.is_ok() ==> final(self)@ =~= old(self)@.push(value))
                && (r.is_err() ==> final(self)@ =~= old(self)@),
            index < old(self)@.len() ==> (r matches Ok(o) && o == old(self)@[index as int])
                && final(self)@ =~= old(self)@.update(index as int, value),
    {
        if index > self.count {
            return Err(StackError::OutOfBounds {
                capacity: self.count,
                index,
            });
        }
        if index == self.count {
            self.push(value)?;
            Ok(Value::Nil)
        } else {
            let old = std::mem::replace(&mut self.data[index], value);
            Ok(old)
        }
    }

    fn get(&mut self, index: usize) -> (v: Value)
        requires old(self).wf(),
        ensures *final(self) == *old(self),
            index < old(self)@.len() ==> v == old(self)@[index as int],
            index >= old(self)@.len() ==> v == Value::Nil,
    {
        if index >= self.count {
            return Value::Nil;
        }
        self.data[index]
    }

    fn last(&self) -> (v: Value)
        requires self.wf(),
        ensures self@.len() > 0 ==> v == self@.last(), self@.len() == 0 ==> v == Value::Nil,
    {
        if self.count > 0 {
            self.data[self.count - 1]
        } else {
            Value::Nil
        }
    }

    fn peek_last(&self, n: usize) -> (v: Value)
        requires self.wf(),
        ensures self@.len() > n ==> v == self@[self@.len() - 1 - n], self@.len() <= n ==> v == Value::Nil,
    {
        if self.count > n {
            self.data[self.count - n - 1]
        } else {
            Value::Nil
        }
    }

    fn clear_until(&mut self, index: usize) -> (res: Value)
        requires old(self).wf(), index <= old(self)@.len(),
        ensures final(self).wf(), final(self).cap() == old(self).cap(),
            final(self)@ =~= old(self)@.take(index as int),
            old(self)@.len() > 0 ==> res == old(self)@.last(), old(self)@.len() == 0 ==> res == Value::Nil,
    {
        let res = self.last();
        self.count = index;
        res
    }

    fn is_empty(&self) -> (b: bool)
        requires self.wf(),
        ensures b == (self@.len() == 0),
    {
        self.count == 0
    }
}

} // verus!
fn main() {}

use vstd::prelude::*;
verus! {
pub enum E { A, B }
pub assume_specification<T>[core::mem::replace::<T>](dest: &mut T, src: T) -> (r: T)
    ensures r == *old(dest), *final(dest) == src;
pub assume_specification<T: Default>[core::mem::take::<T>](dest: &mut T) -> (r: T)
    ensures r == *old(dest);
pub assume_specification<'a, T: Copy>[Option::<&'a T>::copied](o: Option<&'a T>) -> (r: Option<T>)
    ensures r == (match o { Some(x) => Some(*x), None => None });
pub assume_specification<T>[<[T]>::swap](s: &mut [T], a: usize, b: usize)
    requires a < old(s)@.len(), b < old(s)@.len(),
    ensures final(s)@ == old(s)@.update(a as int, old(s)@[b as int]).update(b as int, old(s)@[a as int]);

fn t1(v: &mut Vec<u64>, x: &mut u64) { let _o = std::mem::replace(x, 5); }
fn t2(a: &mut u64, b: &mut u64) { std::mem::swap(a, b); }
fn t3(v: &mut Vec<u64>) requires old(v)@.len() >= 2 { v.insert(1, 7); let _ = v.remove(0); let _ = v.pop(); v.push(3); }
fn t4(o: Option<&u64>) -> u64 { o.copied().unwrap_or(0) }
fn t5(o: Option<u64>) -> Result<u64, E> { o.ok_or(E::A) }
fn t6(r: Result<u64, E>) -> Result<u64, u8> { r.map_err(|_e| 1u8) }
fn t7(a: usize, b: usize) -> Option<usize> { a.checked_sub(b) }
fn t8(a: usize, b: usize) -> usize { a.min(b) }
fn t9(v: &mut Vec<u64>) { v.resize(10, 0); }
fn t10(v: &mut Vec<u64>) { let _t = std::mem::take(v); }
fn t11(a: &[u64; 3], i: usize) -> Option<&u64> { a.get(i) }
fn t12(b: bool) -> usize { b as usize }
fn t13(v: &mut Vec<u64>) requires old(v)@.len() >= 2 { v.swap(0, 1); }
fn t14(v: &Vec<u64>) -> usize { v.len().saturating_sub(1) }
fn t15(o: &mut Option<u64>) -> Option<u64> { o.take() }
fn t16(x: u64) -> usize { x as usize }
fn t17(v: &mut Vec<u64>) { v.truncate(1); v.clear(); }
fn t18(a: i64, b: i64) -> i64 { a.wrapping_add(b) }
fn t19(v: &Vec<u64>) -> Option<&u64> { v.last() }
fn t20(s: &[u64]) -> usize { s.len() }
}
fn main() {}

#!/usr/bin/env python3
"""Design-time spike: extract HandleTable::find_ind from the real source, apply R0/R2/R5,
splice the contract, and hand it to Verus. Not framework code."""
import re, sys, subprocess, hashlib

def tokenize(src):
    toks=[]; i=0; n=len(src)
    while i<n:
        c=src[i]
        if c.isspace(): i+=1; continue
        if src.startswith('//',i):
            j=src.find('\n',i); j=n if j<0 else j
            toks.append(('comment',src[i:j],i,j)); i=j; continue
        if src.startswith('/*',i):
            j=src.find('*/',i)+2; toks.append(('comment',src[i:j],i,j)); i=j; continue
        if c=='"':
            j=i+1
            while src[j]!='"':
                j+=2 if src[j]=='\\' else 1
            j+=1; toks.append(('str',src[i:j],i,j)); i=j; continue
        if c=="'":
            m=re.match(r"'(\\.|[^\\'])'",src[i:])
            if m: j=i+m.end(); toks.append(('char',src[i:j],i,j)); i=j; continue
            m=re.match(r"'[A-Za-z_][A-Za-z0-9_]*",src[i:])
            j=i+m.end(); toks.append(('life',src[i:j],i,j)); i=j; continue
        m=re.match(r'[A-Za-z_][A-Za-z0-9_]*',src[i:])
        if m: j=i+m.end(); toks.append(('id',src[i:j],i,j)); i=j; continue
        m=re.match(r'[0-9][0-9a-zA-Z_\.]*',src[i:])
        if m: j=i+m.end(); toks.append(('num',src[i:j],i,j)); i=j; continue
        for op in ('::','->','=>','==','!=','<=','>=','&&','||','+=','-=','*=','<<','>>','..'):
            if src.startswith(op,i):
                toks.append(('op',op,i,i+len(op))); i+=len(op); break
        else:
            toks.append(('op',c,i,i+1)); i+=1
    return toks

OPEN={'(':')','[':']','{':'}'}
def match_close(toks,i):
    depth=0
    for j in range(i,len(toks)):
        t=toks[j][1]
        if t in OPEN and toks[j][0]=='op': depth+=1
        elif t in OPEN.values() and toks[j][0]=='op':
            depth-=1
            if depth==0: return j
    raise ValueError('unbalanced')

def find_fn(src,toks,name):
    for i,t in enumerate(toks):
        if t[1]=='fn' and toks[i+1][1]==name:
            # back up over visibility / attributes on the same item
            s=i
            while s>0 and toks[s-1][1] in ('pub','unsafe','const') : s-=1
            j=i
            while toks[j][1]!='{': j+=1
            k=match_close(toks,j)
            return toks[s][2], toks[j][2], toks[k][3]
    raise KeyError(name)

def pat_match(toks,i,pat):
    """pat: list of literal token texts, '$x' (one ident) or '$E' (balanced, non-greedy)."""
    env={}
    def rec(ti,pi):
        if pi==len(pat): return ti
        p=pat[pi]
        if p.startswith('$') and p[1].islower():
            if ti<len(toks) and toks[ti][0]=='id':
                old=env.get(p); 
                if old is not None and old!=toks[ti][1]: return None
                env[p]=toks[ti][1]; r=rec(ti+1,pi+1)
                if r is None and old is None: env.pop(p,None)
                return r
            return None
        if p.startswith('$'):
            depth=0; tj=ti
            while tj<len(toks):
                t=toks[tj]
                if t[0]=='op' and t[1] in OPEN: depth+=1
                if t[0]=='op' and t[1] in OPEN.values():
                    if depth==0: break
                    depth-=1
                tj+=1
                if depth==0:
                    env[p]=(ti,tj); r=rec(tj,pi+1)
                    if r is not None: return r
            return None
        if ti<len(toks) and toks[ti][1]==p: return rec(ti+1,pi+1)
        return None
    r=rec(i,0)
    return (r,env) if r is not None else None

def text_of(src,toks,a,b): return src[toks[a][2]:toks[b-1][3]]

def rewrite(src,rules,log):
    changed=True
    while changed:
        changed=False
        toks=[t for t in tokenize(src)]
        for rid,pat,repl in rules:
            for i in range(len(toks)):
                m=pat_match(toks,i,pat)
                if m:
                    end,env=m
                    vals={k:(text_of(src,toks,*v) if isinstance(v,tuple) else v) for k,v in env.items()}
                    new=repl
                    for k,v in sorted(vals.items(),key=lambda kv:-len(kv[0])): new=new.replace(k,v)
                    a,b=toks[i][2],toks[end-1][3]
                    log.append((rid,src[a:b],new))
                    src=src[:a]+new+src[b:]
                    changed=True; break
            if changed: break
    return src

RULES=[
 ('R5', ['debug_assert','!','(','$E',')',';'], ''),
 ('R2.alias', ['let','$p','=','self','.','handles','.','as_ptr','(',')',';'], '/*alias $p*/'),
 ('R2.rd', ['unsafe','{','*','ptr','.','add','(','$E',')','}'], 'self.handles[$E]'),
 ('R2.rd', ['*','self','.','$f','.','as_ptr','(',')','.','add','(','$E',')'], 'self.$f[$E]'),
]

SPEC_SIG='''
        requires self.wf(),
        ensures ind < self.capacity,
            self.handles@[ind as int] == needle || self.handles@[ind as int].0 == 0,
            forall|x: int| 0 <= x < self.capacity && in_range(home(needle, self.capacity), ind as int, x)
                ==> (#[trigger] self.handles@[x]).0 != 0 && self.handles@[x] != needle,
'''
PRE_LOOP='''
        proof { lemma_mask_bound(needle.0.wrapping_mul(2654435769) as usize, len); lemma_exists_empty(self.handles@); }
        let ghost start: int = ind as int;
        let ghost e: int = choose|i: int| 0 <= i < len && (#[trigger] self.handles@[i]).0 == 0;
'''
LOOP_INV='''
            invariant
                self.wf(), len == self.capacity, len_mask == len - 1,
                ind < len, 0 <= e < len, self.handles@[e].0 == 0,
                start == home(needle, self.capacity), 0 <= start < len,
                forall|x: int| 0 <= x < len && in_range(start, ind as int, x)
                    ==> (#[trigger] self.handles@[x]).0 != 0 && self.handles@[x] != needle,
            decreases (if ind as int <= e { e - ind as int } else { e + len as int - ind as int }),
'''
LOOP_END='''
            proof {
                lemma_mask_step(ind, len);
                let next: int = if ind + 1 == len { 0 } else { ind + 1 };
                if next == start { assert(in_range(start, ind as int, e) || e == ind as int); assert(false); }
                assert forall|x: int| 0 <= x < len && in_range(start, next, x)
                    implies (#[trigger] self.handles@[x]).0 != 0 && self.handles@[x] != needle by {
                    assert(in_range(start, ind as int, x) || x == ind as int);
                }
            }
'''

def main():
    repo=sys.argv[1]
    src=open(repo+'/cao-lang/src/collections/handle_table.rs').read()
    toks=tokenize(src)
    a,body,b=find_fn(src,toks,'find_ind')
    fn=src[a:b]
    log=[]
    out=rewrite(fn,RULES,log)
    # drop comments (R0)
    out=re.sub(r'//[^\n]*','',out)
    # splice: signature contract
    out=out.replace('fn find_ind(&self, needle: Handle) -> usize','fn find_ind(&self, needle: Handle) -> (ind: usize)'+SPEC_SIG,1)
    # splice: before loop 0, invariant at loop 0, proof before the last statement of loop 0
    out=out.replace('        loop {', PRE_LOOP+'        loop'+LOOP_INV+'        {',1)
    out=re.sub(r'(            ind = \(ind \+ \d+\) & len_mask;)', lambda m: LOOP_END+m.group(1), out, count=1)
    tmpl=open('/tmp/vx/ht4.rs').read()
    i=tmpl.index('    fn find_ind(&self')
    j=tmpl.index('    /// lookup lemma')
    full=tmpl[:i]+'    '+out.strip()+'\n\n'+tmpl[j:]
    open('/tmp/sp/unit.rs','w').write(full)
    print('--- extracted + rewritten find_ind ---'); print(out)
    print('--- rule log ---')
    for r in log: print(r)
    print('sha256(original fn text)=',hashlib.sha256(fn.encode()).hexdigest()[:16])
    r=subprocess.run(['verus','/tmp/sp/unit.rs','--triggers-mode','silent'],capture_output=True,text=True)
    print((r.stdout+r.stderr).strip().splitlines()[-3:])
main()

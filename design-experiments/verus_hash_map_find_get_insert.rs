use vstd::prelude::*;
verus! {

#[derive(Clone, Copy, PartialEq, Eq, Structural)]
pub struct Key(pub u64);

pub struct CaoHashMap<V> {
    hashes: Vec<u64>,
    keys: Vec<Option<Key>>,
    values: Vec<Option<V>>,
    count: usize,
    capacity: usize,
}

/// the (uninterpreted) hash function of the key type
pub uninterp spec fn spec_hash(k: Key) -> u64;

pub open spec fn occupied(s: Seq<u64>) -> nat
    decreases s.len()
{
    if s.len() == 0 { 0 } else { occupied(s.drop_last()) + if s.last() != 0 { 1nat } else { 0nat } }
}

proof fn lemma_occupied_bound(s: Seq<u64>)
    ensures occupied(s) <= s.len()
    decreases s.len()
{
    if s.len() > 0 { lemma_occupied_bound(s.drop_last()); }
}

proof fn lemma_exists_empty(s: Seq<u64>)
    requires occupied(s) < s.len()
    ensures exists|i: int| 0 <= i < s.len() && #[trigger] s[i] == 0
    decreases s.len()
{
    if s.len() > 0 {
        if s.last() == 0 {
            assert(s[s.len() - 1] == 0);
        } else {
            lemma_occupied_bound(s.drop_last());
            lemma_exists_empty(s.drop_last());
            let i = choose|i: int| 0 <= i < s.drop_last().len() && #[trigger] s.drop_last()[i] == 0;
            assert(s[i] == 0);
        }
    }
}

proof fn lemma_occupied_update(s: Seq<u64>, i: int, h: u64)
    requires 0 <= i < s.len()
    ensures occupied(s.update(i, h)) == occupied(s) - (if s[i] != 0 { 1int } else { 0int }) + (if h != 0 { 1int } else { 0int })
    decreases s.len()
{
    let t = s.update(i, h);
    if i == s.len() - 1 {
        assert(t.drop_last() =~= s.drop_last());
    } else {
        assert(t.drop_last() =~= s.drop_last().update(i, h));
        lemma_occupied_update(s.drop_last(), i, h);
    }
}

proof fn lemma_mod_step(ind: usize, len: usize)
    requires len >= 1, ind < len,
    ensures ((ind + 1) % (len as int)) == (if ind + 1 == len { 0int } else { ind + 1 }),
{
    if ind + 1 == len {
        assert((len as int) % (len as int) == 0) by (nonlinear_arith) requires len >= 1;
    } else {
        assert(((ind + 1) as int) % (len as int) == ind + 1) by (nonlinear_arith) requires 0 <= ind + 1 < len;
    }
}

proof fn lemma_mod_bound(x: int, len: int)
    requires len >= 1, x >= 0,
    ensures 0 <= x % len < len,
{
    assert(0 <= x % len < len) by (nonlinear_arith) requires len >= 1, x >= 0;
}

pub open spec fn cdist(a: int, b: int, cap: int) -> int { if a >= b { a - b } else { a - b + cap } }

proof fn lemma_dist(a: usize, b: usize, cap: usize)
    requires cap >= 1, a < cap, b < cap,
    ensures ((a + cap - b) as int % (cap as int)) == cdist(a as int, b as int, cap as int),
{
    if a >= b {
        assert(((a + cap - b) as int) % (cap as int) == a - b) by (nonlinear_arith) requires 0 <= a - b < cap, cap >= 1;
    } else {
        assert(((a + cap - b) as int) % (cap as int) == a + cap - b) by (nonlinear_arith) requires 0 <= a + cap - b < cap, cap >= 1;
    }
}

pub open spec fn nxt(i: int, cap: int) -> int { if i + 1 == cap { 0 } else { i + 1 } }

pub open spec fn in_range(a: int, b: int, x: int) -> bool {
    if a <= b { a <= x < b } else { x >= a || x < b }
}

pub open spec fn home(h: u64, cap: usize) -> int {
    ((h.wrapping_mul(2654435769u64)) as usize as int) % (cap as int)
}

proof fn lemma_home_bound(h: u64, cap: usize)
    requires cap >= 1,
    ensures 0 <= home(h, cap) < cap,
{
    lemma_mod_bound((h.wrapping_mul(2654435769u64)) as usize as int, cap as int);
}

pub open spec fn chain(h: Seq<u64>, cap: usize) -> bool {
    forall|i: int, x: int| 0 <= i < cap && 0 <= x < cap && #[trigger] h[i] != 0 && in_range(home(h[i], cap), i, x) ==> #[trigger] h[x] != 0
}

pub open spec fn chain_except(h: Seq<u64>, cap: usize, hole: int) -> bool {
    forall|i: int, x: int| 0 <= i < cap && 0 <= x < cap && #[trigger] h[i] != 0 && in_range(home(h[i], cap), i, x) && x != hole
        ==> #[trigger] h[x] != 0
}

pub open spec fn settled(h: Seq<u64>, cap: usize, hole: int, j: int) -> bool {
    forall|i: int| 0 <= i < cap && #[trigger] h[i] != 0 && in_range(nxt(hole, cap as int), j, i)
        ==> !in_range(home(h[i], cap), i, hole)
}

pub open spec fn region_full(h: Seq<u64>, cap: usize, hole: int, j: int) -> bool {
    forall|x: int| 0 <= x < cap && in_range(nxt(hole, cap as int), j, x) ==> #[trigger] h[x] != 0
}

/// slot-level consistency: occupied slots hold a key whose hash is the stored hash, keys are unique
pub open spec fn slots_ok<V>(h: Seq<u64>, k: Seq<Option<Key>>, v: Seq<Option<V>>) -> bool {
    &&& forall|i: int| 0 <= i < h.len() ==> (#[trigger] h[i] != 0 <==> k[i].is_some())
    &&& forall|i: int| 0 <= i < h.len() ==> (#[trigger] h[i] != 0 <==> v[i].is_some())
    &&& forall|i: int| 0 <= i < h.len() && #[trigger] h[i] != 0 ==> h[i] == spec_hash(k[i].unwrap())
    &&& forall|i: int, j: int| 0 <= i < h.len() && 0 <= j < h.len() && i != j && #[trigger] h[i] != 0 && #[trigger] h[j] != 0 ==> k[i].unwrap() != k[j].unwrap()
}

pub open spec fn stored_at<V>(h: Seq<u64>, k: Seq<Option<Key>>, key: Key, i: int) -> bool {
    0 <= i < h.len() && h[i] != 0 && k[i] == Some(key)
}

pub open spec fn present(h: Seq<u64>, k: Seq<Option<Key>>, key: Key) -> bool {
    exists|i: int| #[trigger] stored_at::<()>(h, k, key, i)
}

impl<V> CaoHashMap<V> {
    pub closed spec fn wf(&self) -> bool {
        &&& self.capacity >= 1
        &&& self.capacity <= 0x4000_0000_0000
        &&& self.hashes@.len() == self.capacity
        &&& self.keys@.len() == self.capacity
        &&& self.values@.len() == self.capacity
        &&& self.count == occupied(self.hashes@)
        &&& self.count < self.capacity
        &&& slots_ok(self.hashes@, self.keys@, self.values@)
        &&& chain(self.hashes@, self.capacity)
    }

    pub closed spec fn view(&self) -> IMap<Key, V> {
        IMap::new(
            |k: Key| present(self.hashes@, self.keys@, k),
            |k: Key| self.values@[choose|i: int| #[trigger] stored_at::<()>(self.hashes@, self.keys@, k, i)].unwrap(),
        )
    }

    fn find_ind(&self, needle: u64, k: &Key) -> (ind: usize)
        requires self.wf(),
        ensures ind < self.capacity,
            self.hashes@[ind as int] == 0 || (self.hashes@[ind as int] == needle && self.keys@[ind as int] == Some(*k)),
            forall|x: int| 0 <= x < self.capacity && in_range(home(needle, self.capacity), ind as int, x)
                ==> #[trigger] self.hashes@[x] != 0 && !(self.hashes@[x] == needle && self.keys@[x] == Some(*k)),
    {
        let len = self.capacity;
        let mut ind = (needle.wrapping_mul(2654435769) as usize) % len;
        proof { lemma_home_bound(needle, len); lemma_exists_empty(self.hashes@); }
        let ghost start: int = ind as int;
        let ghost e: int = choose|i: int| 0 <= i < len && #[trigger] self.hashes@[i] == 0;
        loop
            invariant
                self.wf(), len == self.capacity,
                ind < len, 0 <= e < len, self.hashes@[e] == 0,
                start == home(needle, self.capacity), 0 <= start < len,
                forall|x: int| 0 <= x < len && in_range(start, ind as int, x)
                    ==> #[trigger] self.hashes@[x] != 0 && !(self.hashes@[x] == needle && self.keys@[x] == Some(*k)),
            decreases (if ind as int <= e { e - ind as int } else { e + len as int - ind as int }),
        {
            let h = self.hashes[ind];
            if h == 0 || (h == needle && self.keys[ind].unwrap() == *k) {
                return ind;
            }
            proof {
                lemma_mod_step(ind, len);
                let next: int = if ind + 1 == len { 0 } else { ind + 1 };
                if next == start {
                    assert(in_range(start, ind as int, e) || e == ind as int);
                    assert(false);
                }
                assert forall|x: int| 0 <= x < len && in_range(start, next, x)
                    implies #[trigger] self.hashes@[x] != 0 && !(self.hashes@[x] == needle && self.keys@[x] == Some(*k)) by {
                    assert(in_range(start, ind as int, x) || x == ind as int);
                }
            }
            ind = (ind + 1) % len;
        }
    }

    proof fn lemma_lookup(&self, k: Key, i: int, j: int)
        requires self.wf(), stored_at::<()>(self.hashes@, self.keys@, k, i),
            0 <= j < self.capacity,
            self.hashes@[j] == 0 || (self.hashes@[j] == spec_hash(k) && self.keys@[j] == Some(k)),
            forall|x: int| 0 <= x < self.capacity && in_range(home(spec_hash(k), self.capacity), j, x)
                ==> #[trigger] self.hashes@[x] != 0 && !(self.hashes@[x] == spec_hash(k) && self.keys@[x] == Some(k)),
        ensures i == j,
    {
        if i != j {
            assert(self.hashes@[i] == spec_hash(k));
            assert(!in_range(home(spec_hash(k), self.capacity), j, i));
            assert(in_range(home(self.hashes@[i], self.capacity), i, j));
            assert(self.hashes@[j] != 0);
            assert(false);
        }
    }

    fn get_with_hint(&self, h: u64, k: &Key) -> (r: Option<&V>)
        requires self.wf(), h == spec_hash(*k),
        ensures
            match r {
                Some(v) => self@.dom().contains(*k) && *v == self@[*k],
                None => !self@.dom().contains(*k),
            },
    {
        let i = self.find_ind(h, k);
        if self.hashes[i] != 0 {
            proof {
                assert(stored_at::<()>(self.hashes@, self.keys@, *k, i as int));
                let w = choose|w: int| #[trigger] stored_at::<()>(self.hashes@, self.keys@, *k, w);
                self.lemma_lookup(*k, w, i as int);
            }
            self.values[i].as_ref()
        } else {
            proof {
                if self@.dom().contains(*k) {
                    let w = choose|w: int| #[trigger] stored_at::<()>(self.hashes@, self.keys@, *k, w);
                    self.lemma_lookup(*k, w, i as int);
                }
            }
            None
        }
    }

    /// insert without the trailing growth check (the growth wrapper is proved separately)
    fn insert_core(&mut self, h: u64, key: Key, value: V)
        requires old(self).wf(), h == spec_hash(key), h != 0, old(self).count + 1 < old(self).capacity,
        ensures final(self).wf(),
            final(self)@ == old(self)@.insert(key, value),
            final(self).capacity == old(self).capacity,
    {
        let i = self.find_ind(h, &key);
        let ghost oh = self.hashes@;
        let ghost ok = self.keys@;
        let ghost ov = self.values@;
        let ghost oldself = *self;
        proof { lemma_occupied_update(oh, i as int, h); }
        if self.hashes[i] != 0 {
            // delete the old entry
            let _oldk = self.keys[i].take();
            let _oldv = self.values[i].take();
        } else {
            self.hashes[i] = h;
            self.count += 1;
        }
        self.keys[i] = Some(key);
        self.values[i] = Some(value);
        proof {
            let cap = self.capacity;
            let nh = self.hashes@;
            let nk = self.keys@;
            assert(nh =~= oh.update(i as int, h));
            // key was not stored anywhere else
            assert forall|a: int| 0 <= a < cap && a != i as int && #[trigger] oh[a] != 0 implies ok[a] != Some(key) by {
                if ok[a] == Some(key) {
                    assert(stored_at::<()>(oh, ok, key, a));
                    oldself.lemma_lookup(key, a, i as int);
                }
            }
            assert(slots_ok(nh, nk, self.values@));
            assert(chain(nh, cap)) by {
                assert forall|a: int, x: int| 0 <= a < cap && 0 <= x < cap && #[trigger] nh[a] != 0 && in_range(home(nh[a], cap), a, x)
                    implies #[trigger] nh[x] != 0 by {
                    if a == i as int {
                        assert(oh[x] != 0);
                    } else {
                        assert(oh[a] != 0);
                        if x != i as int { assert(oh[x] != 0); }
                    }
                }
            }
            assert(final(self)@ =~= old(self)@.insert(key, value)) by {
                assert forall|k: Key| final(self)@.dom().contains(k) <==> old(self)@.insert(key, value).dom().contains(k) by {
                    if k == key {
                        assert(stored_at::<()>(nh, nk, k, i as int));
                    } else {
                        if present(nh, nk, k) {
                            let w = choose|w: int| #[trigger] stored_at::<()>(nh, nk, k, w);
                            assert(w != i as int);
                            assert(stored_at::<()>(oh, ok, k, w));
                        }
                        if present(oh, ok, k) {
                            let w = choose|w: int| #[trigger] stored_at::<()>(oh, ok, k, w);
                            assert(w != i as int) by { if w == i as int { assert(ok[w] == Some(key)); } }
                            assert(stored_at::<()>(nh, nk, k, w));
                        }
                    }
                }
                assert forall|k: Key| final(self)@.dom().contains(k) implies #[trigger] final(self)@[k] == old(self)@.insert(key, value)[k] by {
                    let w = choose|w: int| #[trigger] stored_at::<()>(nh, nk, k, w);
                    if k == key {
                        assert(stored_at::<()>(nh, nk, k, i as int));
                        assert(w == i as int);
                    } else {
                        assert(w != i as int);
                        assert(stored_at::<()>(oh, ok, k, w));
                        let w0 = choose|w0: int| #[trigger] stored_at::<()>(oh, ok, k, w0);
                        assert(w0 == w);
                    }
                }
            }
        }
    }
}

} // verus!
fn main() {}

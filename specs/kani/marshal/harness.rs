// Injected into src/vm.rs as a child module (cfg(kani) only).  Property C18 (argument marshalling).
use super::*;
use crate::traits::VmFunction;

fn small_vm() -> Vm<'static, ()> {
    Vm {
        auxiliary_data: (),
        callables: HandleTable::with_capacity(4, crate::alloc::SysAllocator).unwrap(),
        runtime_data: RuntimeData::new(4096, 8, 4).unwrap(),
        max_instr: 10,
        remaining_iters: 0,
        _m: Default::default(),
    }
}

/// stand-in for traits::conversion_error (drops the format! machinery, keeps the parameter index)
fn conversion_error_index(input: usize, _expected: &str, _actual: &str) -> ExecutionErrorPayload {
    ExecutionErrorPayload::ExitCode(input as i32)
}

// recording host functions: the result encodes which value arrived in which parameter
fn rec1(_vm: &mut Vm<()>, a: i64) -> Result<Value, ExecutionErrorPayload> {
    Ok(Value::Integer(a))
}
fn rec2(_vm: &mut Vm<()>, a: i64, b: f64) -> Result<Value, ExecutionErrorPayload> {
    Ok(Value::Integer(if b == 2.5 { a } else { -1 }))
}
fn rec3(_vm: &mut Vm<()>, a: i64, b: i64, c: i64) -> Result<Value, ExecutionErrorPayload> {
    Ok(Value::Integer((a & 0xFFFF) | ((b & 0xFFFF) << 16) | ((c & 0xFFFF) << 32)))
}
fn rec4(_vm: &mut Vm<()>, a: i64, b: i64, c: i64, d: i64) -> Result<Value, ExecutionErrorPayload> {
    Ok(Value::Integer((a & 0xFFF) | ((b & 0xFFF) << 12) | ((c & 0xFFF) << 24) | ((d & 0xFFF) << 36)))
}
fn want_str1of3(_vm: &mut Vm<()>, _a: &str, _b: i64, _c: i64) -> Result<Value, ExecutionErrorPayload> {
    Ok(Value::Nil)
}

/// arity 1: the single argument arrives, the stack shrinks by one, the extra value below is untouched
#[kani::proof]
#[kani::unwind(10)]
#[kani::stub(crate::traits::conversion_error, conversion_error_index)]
fn marshal1() {
    let mut vm = small_vm();
    let below: i64 = kani::any();
    let a: i64 = kani::any();
    vm.runtime_data.value_stack.push(Value::Integer(below)).unwrap();
    vm.runtime_data.value_stack.push(Value::Integer(a)).unwrap();
    let f = crate::traits::into_f1(rec1);
    let r = VmFunction::call(&f, &mut vm);
    assert!(matches!(r, Ok(Value::Integer(x)) if x == a));
    assert!(vm.runtime_data.value_stack.len() == 1);
    assert!(vm.runtime_data.value_stack.last() == Value::Integer(below));
    kani::cover!(true, "reached");
}

/// arity 2: declaration order = push order, with the documented int -> i64 / real -> f64 conversions
#[kani::proof]
#[kani::unwind(10)]
#[kani::stub(crate::traits::conversion_error, conversion_error_index)]
fn marshal2() {
    let mut vm = small_vm();
    let a: i64 = kani::any();
    vm.runtime_data.value_stack.push(Value::Integer(a)).unwrap();
    vm.runtime_data.value_stack.push(Value::Real(2.5)).unwrap();
    let f = crate::traits::into_f2(rec2);
    let r = VmFunction::call(&f, &mut vm);
    assert!(matches!(r, Ok(Value::Integer(x)) if x == a));
    assert!(vm.runtime_data.value_stack.len() == 0);
    kani::cover!(true, "reached");
}

#[kani::proof]
#[kani::unwind(10)]
#[kani::stub(crate::traits::conversion_error, conversion_error_index)]
fn marshal3() {
    let mut vm = small_vm();
    let (a, b, c): (i64, i64, i64) = (kani::any(), kani::any(), kani::any());
    kani::assume(0 <= a && a < 0x10000 && 0 <= b && b < 0x10000 && 0 <= c && c < 0x10000);
    vm.runtime_data.value_stack.push(Value::Integer(a)).unwrap();
    vm.runtime_data.value_stack.push(Value::Integer(b)).unwrap();
    vm.runtime_data.value_stack.push(Value::Integer(c)).unwrap();
    let f = crate::traits::into_f3(rec3);
    let r = VmFunction::call(&f, &mut vm);
    assert!(matches!(r, Ok(Value::Integer(x)) if x == (a | (b << 16) | (c << 32))));
    assert!(vm.runtime_data.value_stack.len() == 0);
    kani::cover!(a != b && b != c, "distinct arguments reachable");
}

#[kani::proof]
#[kani::unwind(10)]
#[kani::stub(crate::traits::conversion_error, conversion_error_index)]
fn marshal4() {
    let mut vm = small_vm();
    let (a, b, c, d): (i64, i64, i64, i64) = (kani::any(), kani::any(), kani::any(), kani::any());
    kani::assume(0 <= a && a < 0x1000 && 0 <= b && b < 0x1000 && 0 <= c && c < 0x1000 && 0 <= d && d < 0x1000);
    vm.runtime_data.value_stack.push(Value::Integer(a)).unwrap();
    vm.runtime_data.value_stack.push(Value::Integer(b)).unwrap();
    vm.runtime_data.value_stack.push(Value::Integer(c)).unwrap();
    vm.runtime_data.value_stack.push(Value::Integer(d)).unwrap();
    let f = crate::traits::into_f4(rec4);
    let r = VmFunction::call(&f, &mut vm);
    assert!(matches!(r, Ok(Value::Integer(x)) if x == (a | (b << 12) | (c << 24) | (d << 36))));
    assert!(vm.runtime_data.value_stack.len() == 0);
    kani::cover!(a != d, "distinct arguments reachable");
}

/// a failing conversion is rejected with an invalid-argument error naming the parameter,
/// and the host function is not invoked
#[kani::proof]
#[kani::unwind(10)]
#[kani::stub(crate::traits::conversion_error, conversion_error_index)]
fn marshal_bad_argument_1of3() {
    let mut vm = small_vm();
    vm.runtime_data.value_stack.push(Value::Nil).unwrap();          // parameter 1 wants a string
    vm.runtime_data.value_stack.push(Value::Integer(1)).unwrap();
    vm.runtime_data.value_stack.push(Value::Integer(2)).unwrap();
    let f = crate::traits::into_f3(want_str1of3);
    let r = VmFunction::call(&f, &mut vm);
    assert!(matches!(r, Err(ExecutionErrorPayload::ExitCode(1))));
    kani::cover!(true, "reached");
    // the rejected arguments are still on the stack (the run is over at this point); dropping a VM with a non-empty
    // stack costs CBMC more than 30 minutes and says nothing about the clause
    std::mem::forget(vm);
}

/// names reserved for the library cannot be registered
#[kani::proof]
#[kani::unwind(12)]
fn reserved_names_rejected() {
    let mut vm = small_vm();
    let r = vm.register_native_function("__x", crate::traits::into_f1(rec1));
    assert!(r.is_err());
    kani::cover!(true, "reached");
}

// Injected into src/compiler/module.rs as a child module (cfg(kani) only).  Property C08: the step from the jump
// table to the executed body goes through 32-bit label handles (CaoCompiledProgram::labels): functions are labelled
// Handle::from_u64(position), cards CardIndex::as_handle(), closures as_handle() + from_u64(mask), all in one table.
use super::*;
use crate::prelude::Handle;

fn distinct_below(n: u64) {
    let p: u64 = kani::any();
    let q: u64 = kani::any();
    kani::assume(p < n && q < n && p != q);
    assert!(Handle::from_u64(p) != Handle::from_u64(q));
    kani::cover!(p == 0 && q == n - 1, "ends of the domain reachable");
}
/// function positions below N get pairwise different label handles (loop-free over the whole domain: complete)
#[kani::proof]
fn function_handles_distinct_4k() { distinct_below(1 << 12); }
#[kani::proof]
fn function_handles_distinct_16k() { distinct_below(1 << 14); }

/// and none of them is the handle 0 that HandleTable reserves for empty slots
#[kani::proof]
fn function_handles_nonzero() {
    let p: u64 = kani::any();
    kani::assume(p < 65536);
    assert!(Handle::from_u64(p).value() != 0);
    kani::cover!(p == 65535, "end of the domain reachable");
}

/// KNOWN FINDING probe (expected to fail while the finding is open): the witness Kani found for the harness below,
/// pinned so that the probe is decided in seconds: card [1418, 554] of function number 23 has the label of the
/// function at position 1, so process_card's labels.insert replaces that function's label
#[kani::proof]
fn card_label_collision_witness() {
    let mut idx = CardIndex::new(23, 1418);
    idx.push_subindex(554);
    assert!(idx.as_handle() != Handle::from_u64(1));
}

/// KNOWN FINDING probe, symbolic form: the label of a card at depth 2 never equals the label of a function -- FALSE
/// on the pinned tree (process_card's labels.insert can overwrite a function's label)
#[kani::proof]
fn card_label_never_a_function_label() {
    let f: usize = kani::any();
    let i: u32 = kani::any();
    let j: u32 = kani::any();
    let p: u64 = kani::any();
    kani::assume(f < 64 && p < 64 && i < 2048 && j < 2048);
    let mut idx = CardIndex::new(f, i as usize);
    idx.push_subindex(j);
    assert!(idx.as_handle() != Handle::from_u64(p));
}

// Injected into src/bytecode.rs as a child module (cfg(kani) only).  Property C10 (leaf encodings).
use super::*;
use crate::collections::handle_table::Handle;
use crate::instruction::Instruction;
use crate::VariableId;
use std::convert::TryFrom;

/// write_to_vec appends exactly size_of::<T>() bytes and read_from_bytes reads the same value back,
/// whatever precedes it in the buffer (unaligned).  One harness per operand type the compiler emits.
macro_rules! roundtrip {
    ($name:ident, $t:ty, $eq:expr) => {
        #[kani::proof]
        #[kani::unwind(12)]
        fn $name() {
            let mut out: Vec<u8> = Vec::new();
            let pre: bool = kani::any();
            if pre { out.push(kani::any()); }           // odd offset: unaligned write/read
            let start = out.len();
            let v: $t = kani::any();
            write_to_vec(v, &mut out);
            assert!(out.len() == start + std::mem::size_of::<$t>());
            let r: Option<(usize, $t)> = read_from_bytes(&out[start..]);
            let (n, w) = r.unwrap();
            assert!(n == std::mem::size_of::<$t>());
            assert!($eq(v, w));
            // a buffer that is too short is rejected, never read out of bounds
            let short: Option<(usize, $t)> = read_from_bytes(&out[start + 1..]);
            assert!(short.is_none());
            kani::cover!(pre, "unaligned case reachable");
        }
    };
}
roundtrip!(rt_u8, u8, |a: u8, b: u8| a == b);
roundtrip!(rt_u32, u32, |a: u32, b: u32| a == b);
roundtrip!(rt_i32, i32, |a: i32, b: i32| a == b);
roundtrip!(rt_i64, i64, |a: i64, b: i64| a == b);
roundtrip!(rt_f64, f64, |a: f64, b: f64| a.to_bits() == b.to_bits());

#[kani::proof]
#[kani::unwind(12)]
fn rt_handle_and_variable_id() {
    let mut out: Vec<u8> = Vec::new();
    let k: u32 = kani::any();
    let h = Handle::from_u32(k);
    write_to_vec(h, &mut out);
    assert!(out.len() == 4);
    let r: Option<(usize, Handle)> = read_from_bytes(&out[..]);
    assert!(r == Some((4, h)));
    let r: Option<(usize, VariableId)> = read_from_bytes(&out[..]);
    assert!(r.unwrap().0 == 4);
    kani::cover!(true, "reached");
}

/// the opcode table: exactly the declared discriminants decode, and every instruction has a span
#[kani::proof]
fn opcode_table_total() {
    let b: u8 = kani::any();
    let last = Instruction::CloseUpvalue as u8;
    match Instruction::try_from(b) {
        Ok(i) => {
            assert!(b <= last);
            assert!(i as u8 == b);
            let s = i.span();
            assert!(s >= 1 && s <= 21);
        }
        Err(_) => assert!(b > last),
    }
    kani::cover!(b == last, "last opcode reachable");
    kani::cover!(b > last, "invalid opcode reachable");
}

fn utf8_ok(b: &[u8]) -> Result<&str, std::str::Utf8Error> {
    // stand-in for core::str::from_utf8 (validation is std's business): accept the bytes
    Ok(unsafe { std::str::from_utf8_unchecked(b) })
}

/// length arithmetic of the string codec: a string of n <= 300 bytes is stored as a 4 byte length
/// prefix plus n bytes, and decode_str returns exactly that window and the cursor behind it
/// (bounded only by the concrete buffer of 300 bytes; the content is irrelevant to the arithmetic)
#[kani::proof]
#[kani::unwind(4)]
#[kani::stub(std::str::from_utf8, utf8_ok)]
fn str_length_arithmetic() {
    let n: usize = kani::any();
    kani::assume(n <= 300);
    let bytes = [b'a'; 300];
    let s = unsafe { std::str::from_utf8_unchecked(&bytes[..n]) };
    let mut data: Vec<u8> = Vec::new();
    data.push(0xAA);
    encode_str(s, &mut data);
    assert!(data.len() == 1 + 4 + n);
    let (used, got) = decode_str(&data[1..]).unwrap();
    assert!(used == 4 + n);
    assert!(got.len() == n);
    // truncated data is rejected
    if n > 0 { assert!(decode_str(&data[1..data.len() - 1]).is_none()); }
    kani::cover!(n == 300, "long string reachable");
    kani::cover!(n == 0, "empty string reachable");
}

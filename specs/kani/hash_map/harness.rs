// Injected into src/collections/hash_map.rs as a child module (cfg(kani) only).  Property C12.
use super::*;
use crate::value::Value;

/// R4 fact behind the Verus stub `needs_grow`: when the real f32 test says "no growth" the count
/// is below the capacity (or zero), so an empty bucket remains.  Loop-free over all usize pairs.
#[kani::proof]
fn needs_grow_fact() {
    let count: usize = kani::any();
    let capacity: usize = kani::any();
    let grow = CaoHashMap::<u32, u32>::needs_grow(count, capacity);
    if !grow {
        assert!(count < capacity || count == 0);
    } else {
        // growth is asked for only when at least half of the buckets would be used
        assert!(count >= capacity / 2);
    }
    kani::cover!(!grow && count > 0, "no-growth case reachable");
    kani::cover!(grow, "growth case reachable");
}

/// contracts of the two std functions the deserialisers' capacity computation uses (Verus stubs `is_power_of_two`,
/// `next_power_of_two` of the serde units): loop-free over all usize
#[kani::proof]
fn pow2_facts() {
    let x: usize = kani::any();
    assert!(x.is_power_of_two() == (x != 0 && (x & x.wrapping_sub(1)) == 0));
    if x <= 1usize << 63 {
        let r = x.next_power_of_two();
        assert!(r.is_power_of_two() && r >= x);
        let p: usize = kani::any();
        kani::assume(p.is_power_of_two() && p >= x);
        assert!(r <= p);
    }
    kani::cover!(x > (1usize << 62) && x <= (1usize << 63), "largest admissible argument reachable");
}

/// the crate's `hash` never returns the reserved value 0 (loops over the key's bytes: bounded by
/// the key width, unwound past it, so complete for these key types)
#[kani::proof]
#[kani::unwind(6)]
fn hash_nonzero_u32() {
    let k: u32 = kani::any();
    assert!(hash(&k) != 0);
    kani::cover!(k == 3416215008, "the key whose FNV hash is 0 is reachable");
}
#[kani::proof]
#[kani::unwind(10)]
fn hash_nonzero_i64() {
    let k: i64 = kani::any();
    assert!(hash(&k) != 0);
    kani::cover!(true, "reached");
}
#[kani::proof]
#[kani::unwind(10)]
fn hash_nonzero_value_scalars() {
    let i: i64 = kani::any();
    let r: f64 = kani::any();
    assert!(hash(&Value::Integer(i)) != 0);
    assert!(hash(&Value::Real(r)) != 0);
    assert!(hash(&Value::Nil) != 0);
    kani::cover!(true, "reached");
}
/// `hash` is a function of the key (same key, same hash): the hint discipline of *_with_hint
#[kani::proof]
#[kani::unwind(10)]
fn hash_is_function_i64() {
    let a: i64 = kani::any();
    let b: i64 = kani::any();
    if a == b { assert!(hash(&a) == hash(&b)); }
    kani::cover!(a == b, "reached");
}

/// bounded smoke test of the real byte-block layout, Drop and leak freedom: concrete keys,
/// capacity 1 -> growth, overwrite, remove, clear (bounded: 3 keys, 6 operations)
struct DropCounter(*mut u32);
impl Drop for DropCounter {
    fn drop(&mut self) { unsafe { *self.0 += 1; } }
}
#[kani::proof]
#[kani::unwind(8)]
fn layout_drop_smoke() {
    let mut drops: u32 = 0;
    let p: *mut u32 = &mut drops;
    {
        let mut m: CaoHashMap<u8, DropCounter> = CaoHashMap::with_capacity_in(1, SysAllocator).unwrap();
        unsafe {
            m.insert_with_hint(1, 10u8, DropCounter(p)).unwrap();
            m.insert_with_hint(2, 11u8, DropCounter(p)).unwrap();
            m.insert_with_hint(1, 10u8, DropCounter(p)).unwrap(); // overwrite: old value dropped
            assert!(*p == 1);
            assert!(m.len() == 2);
            let r = m.remove_with_hint(2, &11u8);
            assert!(r.is_some());
            drop(r);
            assert!(*p == 2);
            assert!(m.len() == 1);
            assert!(m.get_with_hint(1, &10u8).is_some());
            assert!(m.get_with_hint(2, &11u8).is_none());
        }
    }
    assert!(drops == 3);
    kani::cover!(drops == 3, "end reached");
}

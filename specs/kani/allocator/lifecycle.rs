// Injected into src/vm/runtime.rs as a child module (cfg(kani) only).  Properties C05, C17.
use super::*;
use std::sync::atomic::Ordering;

/// bounded object life cycle on the real RuntimeData: allocate a table and a function object, push a
/// value, then clear: everything is released, accounting returns to zero and the state equals the
/// state of a new RuntimeData (bounded: 2 objects, 1 value, stack sizes 4/4)
#[kani::proof]
#[kani::unwind(20)]
fn clear_restores_initial_state() {
    let limit: usize = 4096;
    let mut rt = RuntimeData::new(limit, 4, 4).unwrap();
    let fresh_next_gc = rt.memory.next_gc.load(Ordering::Relaxed);
    let a: i64 = kani::any();
    rt.value_stack.push(Value::Integer(a)).unwrap();
    rt.call_stack
        .push(CallFrame { src_instr_ptr: 0, dst_instr_ptr: 0, stack_offset: 0, closure: std::ptr::null_mut() })
        .unwrap();
    let t = rt.init_table().unwrap();
    drop(t);
    let f = rt.init_function(Handle::from_u32(7), 1).unwrap();
    drop(f);
    rt.global_vars.push(Value::Integer(1));
    assert!(rt.memory.allocated.load(Ordering::Relaxed) > 0);
    assert!(rt.memory.allocated.load(Ordering::Relaxed) <= limit);
    rt.memory.next_gc.store(kani::any(), Ordering::Relaxed);
    rt.clear();
    assert!(rt.value_stack.len() == 0);
    assert!(rt.value_stack.pop() == Value::Nil);
    assert!(rt.call_stack.len() == 0);
    assert!(rt.global_vars.is_empty());
    assert!(rt.object_list.is_empty());
    assert!(rt.open_upvalues.is_null());
    assert!(rt.memory.allocated.load(Ordering::Relaxed) == 0);
    assert!(rt.memory.next_gc.load(Ordering::Relaxed) == fresh_next_gc);
    assert!(rt.memory.limit.load(Ordering::Relaxed) == limit);
    kani::cover!(true, "end reached");
}

/// a failed object initialisation must not leave anything charged: with a limit that admits the
/// object header but not the payload, init_table / init_string fail with OutOfMemory and after clear
/// the accounted usage is back to zero (bounded: the two two-step initialisers, one limit each)
#[kani::proof]
#[kani::unwind(20)]
fn failed_init_table_is_not_charged() {
    let header = std::mem::size_of::<CaoLangObject>() + std::mem::align_of::<CaoLangObject>();
    let mut rt = RuntimeData::new(header + 8, 4, 4).unwrap();
    let r = rt.init_table();
    assert!(r.is_err());
    assert!(rt.memory.allocated.load(Ordering::Relaxed) == 0);
    rt.clear();
    assert!(rt.memory.allocated.load(Ordering::Relaxed) == 0);
    kani::cover!(true, "end reached");
}

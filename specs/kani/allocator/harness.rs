// Injected into src/alloc/caolang_alloc.rs as a child module (cfg(kani) only).  Properties C05, C17.
use super::*;

static mut GC_CALLS: u32 = 0;

/// stand-in for a collection (contract of RuntimeData::gc as far as the allocator is concerned):
/// it returns some of the outstanding bytes through dealloc, i.e. `allocated` does not grow
fn gc_stub(rt: &mut RuntimeData) {
    let a = unsafe { &*rt.memory.inner.get() };
    let cur = a.allocated.load(Ordering::Relaxed);
    let freed: usize = kani::any();
    kani::assume(freed <= cur);
    a.allocated.store(cur - freed, Ordering::Relaxed);
    unsafe { GC_CALLS += 1; }
}

/// the allocator's counter contract, for every counter state, limit and request size 1..=4096
/// (loop-free apart from constructing the RuntimeData: complete)
#[kani::proof]
#[kani::unwind(10)]
#[kani::stub(RuntimeData::gc, gc_stub)]
fn alloc_accounting() {
    let limit: usize = kani::any();
    let mut rt = RuntimeData::new(limit, 2, 1).unwrap();
    let a = unsafe { &*rt.memory.inner.get() };
    let before: usize = kani::any();
    kani::assume(before <= limit);
    a.allocated.store(before, Ordering::Relaxed);
    let next_gc: usize = kani::any();
    a.next_gc.store(next_gc, Ordering::Relaxed);
    let size: usize = kani::any();
    kani::assume(size >= 1 && size <= 4096);
    let l = Layout::from_size_align(size, 8).unwrap();
    let charge = size + 8;
    unsafe { GC_CALLS = 0; }
    let r = unsafe { a.alloc(l) };
    let after = a.allocated.load(Ordering::Relaxed);
    let gcs = unsafe { GC_CALLS };
    assert!(after <= limit);                              // never above the limit
    match r {
        Ok(p) => {
            // charged exactly size + align on top of what survived the (optional) collection
            assert!(after >= charge && after - charge <= before);
            if gcs == 0 { assert!(after as u128 == before as u128 + charge as u128); }
            unsafe { a.dealloc(p, l) };
            // dealloc refunds exactly what alloc charged
            assert!(a.allocated.load(Ordering::Relaxed) == after - charge);
        }
        Err(_) => {
            // a failed allocation is not charged, and a collection was attempted first
            assert!(after <= before);
            assert!(gcs == 1);
            // out of memory only if what survived the collection plus the request exceeds the limit
            assert!(after as u128 + charge as u128 > limit as u128);
        }
    }
    kani::cover!(r.is_ok() && gcs == 1, "success after a collection reachable");
    kani::cover!(r.is_err(), "out of memory reachable");
    kani::cover!(r.is_ok() && gcs == 0, "success without collection reachable");
}

/// a new allocator, and one that has been reset, schedule the first collection identically
#[kani::proof]
#[kani::unwind(10)]
fn reset_next_gc_matches_new() {
    let limit: usize = kani::any();
    let a = CaoLangAllocator::new(std::ptr::null_mut(), limit);
    let fresh = a.next_gc.load(Ordering::Relaxed);
    let junk: usize = kani::any();
    a.next_gc.store(junk, Ordering::Relaxed);
    a.reset_next_gc();
    assert!(a.next_gc.load(Ordering::Relaxed) == fresh);
    assert!(a.allocated.load(Ordering::Relaxed) == 0);
    kani::cover!(junk != fresh, "reachable");
}

/// zero-sized layouts (the payload of an empty string) are charged `align` bytes by alloc, so dealloc must
/// refund them too: the refund does not depend on the size being non-zero (system dealloc stubbed: a
/// zero-sized block has no memory behind it)
unsafe fn sys_dealloc_stub(_p: *mut u8, _l: Layout) {}
#[kani::proof]
#[kani::unwind(10)]
#[kani::stub(std::alloc::dealloc, sys_dealloc_stub)]
fn dealloc_refunds_any_size() {
    let a = CaoLangAllocator::new(std::ptr::null_mut(), kani::any());
    let size: usize = kani::any();
    kani::assume(size <= 4096);
    let l = Layout::from_size_align(size, 4).unwrap();
    let charge = size + 4;
    let before: usize = kani::any();
    kani::assume(before >= charge);
    a.allocated.store(before, Ordering::Relaxed);
    unsafe { a.dealloc(NonNull::<u32>::dangling().cast(), l) };
    assert!(a.allocated.load(Ordering::Relaxed) == before - charge);
    kani::cover!(size == 0, "zero-sized layout reachable");
}

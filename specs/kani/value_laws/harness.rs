// Injected into src/value.rs as a child module (cfg(kani) only).  Property C19 on scalar values:
// loop-free harnesses over the full 64-bit domains => complete proofs (no bound).
// One harness per kind pair / triple: a blended `any::<Value>()` harness does not finish (measured).
use super::*;
use crate::value::Value;
use std::hash::{Hash, Hasher};

fn h(v: &Value) -> u64 {
    let mut s = CaoHasher::default();
    v.hash(&mut s);
    s.finish()
}

fn nan(v: Value) -> bool {
    matches!(v, Value::Real(x) if x.is_nan())
}

fn is_zero_real(v: Value) -> bool {
    matches!(v, Value::Real(x) if x == 0.0)
}

/// pairwise laws: order never contradicts equality, order is asymmetric, eq symmetric and reflexive
/// (non-NaN), equal values hash equally (signed zero excepted), truthiness total
fn pair_laws(a: Value, b: Value) {
    let ab = a == b;
    let ba = b == a;
    assert!(ab == ba);                                   // symmetry
    if !nan(a) { assert!(a == a); }                      // reflexivity on non-NaN
    if a < b {
        assert!(!(b < a));                               // asymmetry
        assert!(!ab);                                    // less => not equal
        assert!(b > a);
    }
    if ab {
        assert!(!(a < b) && !(a > b));                   // equal => neither less nor greater
        if !(is_zero_real(a) && is_zero_real(b)) {
            assert!(h(&a) == h(&b));                     // equal values hash equally (signed zero excepted)
        }
    }
    let _ = a.as_bool();
    let _ = b.as_bool();
}

#[kani::proof]
fn pair_int_int() {
    let (a, b) = (Value::Integer(kani::any()), Value::Integer(kani::any()));
    pair_laws(a, b);
    kani::cover!(a == b, "a == b reachable");
    kani::cover!(a < b, "a < b reachable");
}
#[kani::proof]
fn pair_real_real() {
    let (a, b) = (Value::Real(kani::any()), Value::Real(kani::any()));
    pair_laws(a, b);
    kani::cover!(a == b, "a == b reachable");
    kani::cover!(a < b, "a < b reachable");
}
#[kani::proof]
fn pair_int_real() {
    let (a, b) = (Value::Integer(kani::any()), Value::Real(kani::any()));
    pair_laws(a, b);
    kani::cover!(a < b, "a < b reachable");
    kani::cover!(b < a, "b < a reachable");
}
#[kani::proof]
fn pair_real_int() {
    let (a, b) = (Value::Real(kani::any()), Value::Integer(kani::any()));
    pair_laws(a, b);
    kani::cover!(a < b, "a < b reachable");
    kani::cover!(b < a, "b < a reachable");
}
#[kani::proof]
fn pair_nil_int() {
    let (a, b) = (Value::Nil, Value::Integer(kani::any()));
    pair_laws(a, b);
    kani::cover!(a < b, "a < b reachable");
    kani::cover!(b < a, "b < a reachable");
}
#[kani::proof]
fn pair_int_nil() {
    let (a, b) = (Value::Integer(kani::any()), Value::Nil);
    pair_laws(a, b);
    kani::cover!(a < b, "a < b reachable");
    kani::cover!(b < a, "b < a reachable");
}
#[kani::proof]
fn pair_nil_real() {
    let (a, b) = (Value::Nil, Value::Real(kani::any()));
    pair_laws(a, b);
    kani::cover!(a < b, "a < b reachable");
    kani::cover!(b < a, "b < a reachable");
}
#[kani::proof]
fn pair_real_nil() {
    let (a, b) = (Value::Real(kani::any()), Value::Nil);
    pair_laws(a, b);
    kani::cover!(a < b, "a < b reachable");
    kani::cover!(b < a, "b < a reachable");
}
#[kani::proof]
fn pair_nil_nil() {
    let (a, b) = (Value::Nil, Value::Nil);
    assert!(a == b && !(a < b) && !(a > b) && h(&a) == h(&b) && !a.as_bool());
    kani::cover!(a == b, "equal pair reachable");
}

/// transitivity of equality, per kind (mixed kinds are never equal, see mixed_never_equal)
#[kani::proof]
fn eq_trans_int() {
    let (a, b, c) = (Value::Integer(kani::any()), Value::Integer(kani::any()), Value::Integer(kani::any()));
    if a == b && b == c { assert!(a == c); }
    kani::cover!(a == b && b == c, "chain reachable");
}
#[kani::proof]
fn eq_trans_real() {
    let (a, b, c) = (Value::Real(kani::any()), Value::Real(kani::any()), Value::Real(kani::any()));
    if a == b && b == c { assert!(a == c); }
    kani::cover!(a == b && b == c, "chain reachable");
}
/// values of different kinds are never equal, so equality restricted to scalars is the disjoint
/// union of the per-kind relations and transitivity follows from the per-kind harnesses
#[kani::proof]
fn mixed_never_equal() {
    let i = Value::Integer(kani::any());
    let r = Value::Real(kani::any());
    assert!(i != r && r != i && Value::Nil != i && i != Value::Nil && Value::Nil != r && r != Value::Nil);
    kani::cover!(true, "reached");
}

/// integers are ordered by numeric value
#[kani::proof]
fn order_int_numeric() {
    let (x, y): (i64, i64) = (kani::any(), kani::any());
    let (a, b) = (Value::Integer(x), Value::Integer(y));
    assert!((a < b) == (x < y));
    assert!((a > b) == (x > y));
    assert!((a <= b) == (x <= y));
    kani::cover!(x < y, "lt reachable");
}
/// reals are ordered by numeric value (NaN unordered)
#[kani::proof]
fn order_real_numeric() {
    let (x, y): (f64, f64) = (kani::any(), kani::any());
    let (a, b) = (Value::Real(x), Value::Real(y));
    assert!((a < b) == (x < y));
    assert!((a > b) == (x > y));
    kani::cover!(x < y, "lt reachable");
}
/// the two kinds mix freely: for |i| <= 2^53 the comparison is the comparison of the exact numeric
/// values; beyond that the integer is rounded to the nearest f64 (documented coercion), so the
/// order is never inverted
#[kani::proof]
fn order_int_real_numeric() {
    let i: i64 = kani::any();
    let r: f64 = kani::any();
    let (a, b) = (Value::Integer(i), Value::Real(r));
    assert!((a < b) == ((i as f64) < r));
    assert!((a > b) == ((i as f64) > r));
    assert!((b < a) == (r < (i as f64)));
    if i >= -(1i64 << 53) && i <= (1i64 << 53) && r >= -9.0e15 && r <= 9.0e15 {
        // exact: r's integer part fits i64, compare exactly
        let t = r as i64; // truncation toward zero, exact in this range
        let exact_lt = i < t || (i == t && (t as f64) < r);
        assert!((a < b) == exact_lt);
    }
    kani::cover!(a < b, "lt reachable");
    kani::cover!(b < a, "gt reachable");
}
/// nil counts as 0 against a number
#[kani::proof]
fn order_nil_is_zero() {
    let i: i64 = kani::any();
    let r: f64 = kani::any();
    assert!((Value::Nil < Value::Integer(i)) == (0 < i));
    assert!((Value::Integer(i) < Value::Nil) == (i < 0));
    assert!((Value::Nil < Value::Real(r)) == (0.0 < r));
    assert!((Value::Real(r) < Value::Nil) == (r < 0.0));
    kani::cover!(Value::Nil < Value::Integer(i), "reachable");
}
/// order transitivity on integers and on non-NaN reals
#[kani::proof]
fn order_trans_int() {
    let (a, b, c) = (Value::Integer(kani::any()), Value::Integer(kani::any()), Value::Integer(kani::any()));
    if a < b && b < c { assert!(a < c); }
    kani::cover!(a < b && b < c, "chain reachable");
}
#[kani::proof]
fn order_trans_real() {
    let (a, b, c) = (Value::Real(kani::any()), Value::Real(kani::any()), Value::Real(kani::any()));
    if a < b && b < c { assert!(a < c); }
    kani::cover!(a < b && b < c, "chain reachable");
}

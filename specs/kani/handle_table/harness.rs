// Injected into src/collections/handle_table.rs as a child module (cfg(kani) only).  Property C13.
use super::*;

// ---------------------------------------------------------------- leaf contracts (complete)

/// contract of pad_pot assumed by the Verus unit; the loop clears one bit per iteration, so 65
/// unwindings cover every usize and the unwinding assertion makes the bound a proof
#[kani::proof_for_contract(pad_pot)]
#[kani::unwind(65)]
fn check_pad_pot() {
    let c: usize = kani::any();
    let r = pad_pot(c);
    kani::cover!(r == 1 << 30, "largest table size reachable");
    kani::cover!(r == 2, "smallest table size reachable");
}

/// R4 fact behind `load_exceeded`: if the f32 load test does not ask for growth there is room for
/// one more entry *and* an empty slot remains.  Loop-free over all usize pairs.
#[kani::proof]
fn load_test_fact() {
    let count: usize = kani::any();
    let capacity: usize = kani::any();
    kani::assume(count < usize::MAX);
    let grow = (count + 1) as f32 > capacity as f32 * MAX_LOAD;
    if !grow {
        assert!(count + 1 < capacity);
    } else {
        // growth is asked for only when at least half of the slots would be used
        assert!(count + 1 >= capacity / 2);
    }
    kani::cover!(!grow, "no-growth case reachable");
    kani::cover!(grow, "growth case reachable");
}

/// R4 fact behind `reserve_target`
#[kani::proof]
fn reserve_target_fact() {
    let new_cap: usize = kani::any();
    kani::assume(new_cap <= 0x1000_0000);
    let r = (new_cap as f32 * (1.0 + MAX_LOAD)) as usize;
    assert!(r >= new_cap);
    assert!(r <= 2 * new_cap);
    kani::cover!(new_cap == 0x1000_0000, "upper end reachable");
}

/// integer handles are never the reserved value 0 (from_u32 / from_u64 / from_i64)
#[kani::proof]
fn handle_from_u32_nonzero() {
    let k: u32 = kani::any();
    assert!(Handle::from_u32(k).0 != 0);
    kani::cover!(k == 0, "zero key reachable");
}
// ---------------------------------------------------------------- bounded scenarios on the real unsafe code

const KEYS: [u32; 8] = [1, 2, 3, 5, 8, 13, 0x9E3779B9, 0xFFFF_FFFF];

/// every requested capacity in {0,1,2,3,5} gives a usable table (one harness per value)
fn with_capacity_case(c: usize) {
    let mut t: HandleTable<u32> = HandleTable::with_capacity(c, SysAllocator).unwrap();
    assert!(t.capacity() >= 2 && t.capacity() >= c && (t.capacity() & (t.capacity() - 1)) == 0);
    assert!(t.get(Handle(7)).is_none());
    t.insert(Handle(7), 1).unwrap();
    assert!(t.get(Handle(7)) == Some(&1));
    assert!(t.get(Handle(9)).is_none());
    assert!(t.len() == 1);
    kani::cover!(true, "end reached");
}
#[kani::proof]
#[kani::unwind(10)]
fn with_capacity_0() { with_capacity_case(0); }
#[kani::proof]
#[kani::unwind(10)]
fn with_capacity_1() { with_capacity_case(1); }
#[kani::proof]
#[kani::unwind(10)]
fn with_capacity_3() { with_capacity_case(3); }
#[kani::proof]
#[kani::unwind(10)]
fn with_capacity_5() { with_capacity_case(5); }

/// insert/insert/remove/get with two fully symbolic handles at capacity 4 (bounded: 4 operations)
#[kani::proof]
#[kani::unwind(9)]
fn insert_remove_get_sym2() {
    let mut t: HandleTable<u32> = HandleTable::with_capacity(4, SysAllocator).unwrap();
    let k1: u32 = kani::any();
    let k2: u32 = kani::any();
    kani::assume(k1 != 0 && k2 != 0 && k1 != k2);
    t.insert(Handle(k1), 1).unwrap();
    t.insert(Handle(k2), 2).unwrap();
    assert!(t.get(Handle(k1)) == Some(&1));
    assert!(t.get(Handle(k2)) == Some(&2));
    assert!(t.len() == 2);
    assert!(t.remove(Handle(k1)) == Some(1));
    assert!(t.get(Handle(k2)) == Some(&2));
    assert!(t.get(Handle(k1)).is_none());
    assert!(t.len() == 1);
    kani::cover!(k1.wrapping_mul(2654435769) & 3 == k2.wrapping_mul(2654435769) & 3, "colliding home slots reachable");
}

/// iteration yields each entry exactly once; values dropped exactly once over clear/Drop
/// (bounded: capacity 4, 3 entries)
struct DropCounter(*mut u32);
impl Drop for DropCounter {
    fn drop(&mut self) { unsafe { *self.0 += 1; } }
}
#[kani::proof]
#[kani::unwind(10)]
fn iter_and_drop_once() {
    let mut drops: u32 = 0;
    let p: *mut u32 = &mut drops;
    {
        let mut t: HandleTable<DropCounter> = HandleTable::with_capacity(4, SysAllocator).unwrap();
        t.insert(Handle(KEYS[0]), DropCounter(p)).unwrap();
        t.insert(Handle(KEYS[6]), DropCounter(p)).unwrap();
        t.insert(Handle(KEYS[0]), DropCounter(p)).unwrap(); // overwrite drops the old value
        assert!(unsafe { *p } == 1);
        let mut seen = 0u32;
        let mut n = 0;
        for (k, _) in t.iter() {
            n += 1;
            seen ^= k.0;
        }
        assert!(n == 2 && seen == KEYS[0] ^ KEYS[6]);
        let r = t.remove(Handle(KEYS[6]));
        assert!(r.is_some());
        drop(r);
        assert!(unsafe { *p } == 2);
    }
    assert!(drops == 3);
    kani::cover!(drops == 3, "end reached");
}

// Injected into src/value.rs as a child module (cfg(kani) only).  Property C04 (arithmetic is total).
use super::*;

fn any_scalar(kind: u8) -> Value {
    match kind {
        0 => Value::Nil,
        1 => Value::Integer(kani::any()),
        _ => Value::Real(kani::any()),
    }
}

/// + - * / on every pair of scalar kinds: never panics (CBMC checks every arithmetic overflow,
/// division and cast in the real code) and integer results are the wrapped results
macro_rules! arith_total {
    ($name:ident, $ka:expr, $kb:expr) => {
        #[kani::proof]
        fn $name() {
            let a = any_scalar($ka);
            let b = any_scalar($kb);
            let s = a + b;
            let d = a - b;
            let m = a * b;
            let q = a / b;
            if let (Value::Integer(x), Value::Integer(y)) = (a, b) {
                assert!(matches!(s, Value::Integer(r) if r == x.wrapping_add(y)));
                assert!(matches!(d, Value::Integer(r) if r == x.wrapping_sub(y)));
                assert!(matches!(m, Value::Integer(r) if r == x.wrapping_mul(y)));
                assert!(matches!(q, Value::Real(_)));
            }
            if a.is_float() || b.is_float() {
                assert!(matches!(s, Value::Real(_)) && matches!(q, Value::Real(_)));
            }
            kani::cover!(true, "reached");
        }
    };
}
arith_total!(arith_int_int, 1, 1);
arith_total!(arith_int_real, 1, 2);
arith_total!(arith_real_int, 2, 1);
arith_total!(arith_real_real, 2, 2);
arith_total!(arith_nil_int, 0, 1);
arith_total!(arith_int_nil, 1, 0);
arith_total!(arith_nil_real, 0, 2);
arith_total!(arith_nil_nil, 0, 0);

/// conversions used by the VM on scalars are total
#[kani::proof]
fn conversions_total() {
    let k: u8 = kani::any();
    kani::assume(k <= 2);
    let v = any_scalar(k);
    let _ = i64::try_from(v);
    let _ = f64::try_from(v);
    let _ = v.as_bool();
    let _ = v.type_name();
    let _: bool = v.into();
    kani::cover!(k == 2, "real reachable");
}

// ---- R2 memory primitives over Option slots (shared by the units that use rule R2) ----
// A raw array of possibly-uninitialised T is modelled as Vec<Option<T>>, Some = initialised.
// Each function stands for one raw-pointer primitive; its precondition is the primitive's safety
// condition, so use of uninitialised memory, double drop and leak-by-overwrite become failed
// preconditions.
fn slot_write<T>(v: &mut Vec<Option<T>>, i: usize, x: T)
    requires i < old(v)@.len(), old(v)@[i as int].is_none(),
    ensures final(v)@ == old(v)@.update(i as int, Some(x)),
{
    v[i] = Some(x);
}

fn slot_read<T>(v: &mut Vec<Option<T>>, i: usize) -> (r: T)
    requires i < old(v)@.len(), old(v)@[i as int].is_some(),
    ensures final(v)@ == old(v)@.update(i as int, None), r == old(v)@[i as int].unwrap(),
{
    let o = v[i].take();
    o.unwrap()
}

fn slot_drop<T>(v: &mut Vec<Option<T>>, i: usize)
    requires i < old(v)@.len(), old(v)@[i as int].is_some(),
    ensures final(v)@ == old(v)@.update(i as int, None),
{
    let _dropped = v[i].take();
}

fn slot_ref<T>(v: &Vec<Option<T>>, i: usize) -> (r: &T)
    requires i < v@.len(), v@[i as int].is_some(),
    ensures *r == v@[i as int].unwrap(),
{
    v[i].as_ref().unwrap()
}

fn slot_mut<T>(v: &mut Vec<Option<T>>, i: usize) -> (r: &mut T)
    requires i < old(v)@.len(), old(v)@[i as int].is_some(),
    ensures *r == old(v)@[i as int].unwrap(), final(v)@ == old(v)@.update(i as int, Some(*final(r))),
{
    v[i].as_mut().unwrap()
}

/// storage whose slots are all uninitialised may be handed back to the allocator: nothing leaks
fn release_slots<T>(v: Vec<Option<T>>)
    requires forall|i: int| 0 <= i < v@.len() ==> (#[trigger] v@[i]).is_none(),
{
}

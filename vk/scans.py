"""Syntactic scans that back a stated frame assumption of a Verus skeleton unit.

A scan is not a proof: it is listed in the trusted base.  It is deterministic and its finding (a
source site) is the failing "input" of the violation it reports."""
import os, re
from . import rscan

def _enclosing_fn(toks, i):
    """name of the innermost fn whose body contains token i (or None)"""
    best = None
    for k, t in enumerate(toks):
        if t.kind == 'id' and t.text == 'fn' and k + 1 < len(toks) and toks[k + 1].kind == 'id' and t.a < toks[i].a:
            j = k
            while j < len(toks) and not (toks[j].kind == 'op' and toks[j].text in ('{', ';')):
                if toks[j].kind == 'op' and toks[j].text in ('(', '['):
                    j = rscan.match_close(toks, j)
                j += 1
            if j < len(toks) and toks[j].text == '{':
                c = rscan.match_close(toks, j)
                if toks[j].a < toks[i].a < toks[c].a:
                    best = toks[k + 1].text
    return best

def budget_write_set(repo):
    """every occurrence of the budget fields outside the functions whose text the vm_run unit verifies
    (or that only initialise them) breaks the frame assumption of `dispatch`"""
    allowed_fns = {'new', 'with_max_iter', 'run', '_run'}
    root = os.path.join(repo, 'cao-lang', 'src')
    findings, sites = [], 0
    for d, _, files in os.walk(root):
        for f in sorted(files):
            if not f.endswith('.rs') or f == 'tests.rs' or 'test' in os.path.basename(d):
                continue
            path = os.path.join(d, f)
            src = open(path).read()
            if 'remaining_iters' not in src and 'max_instr' not in src:
                continue
            toks = rscan.tokenize(src)
            for i, t in enumerate(toks):
                if t.kind == 'id' and t.text in ('remaining_iters', 'max_instr'):
                    sites += 1
                    fn = _enclosing_fn(toks, i)
                    rel = os.path.relpath(path, repo)
                    line = src.count('\n', 0, t.a) + 1
                    if fn is None:
                        # field declaration in `struct Vm`
                        if rel.endswith('cao-lang/src/vm.rs') and toks[i + 1].text == ':':
                            continue
                    elif rel.endswith('cao-lang/src/vm.rs') and fn in allowed_fns:
                        continue
                    text = src[src.rfind('\n', 0, t.a) + 1: src.find('\n', t.a)].strip()
                    findings.append(dict(file=rel, line=line, fn=fn, field=t.text, text=text))
    return dict(name='budget_write_set', sites=sites, findings=findings,
                statement='the budget fields remaining_iters / max_instr are only mentioned in Vm::{new, with_max_iter, run, _run}')

def error_site_address(repo):
    """C15: inside the dispatch loop of Vm::_run every error is built by payload_to_error(err, ADDRESS, stack).  Once the
    loop has saved the address of the instruction being executed (`let src_ptr = *instr_ptr;`) and advanced the
    instruction pointer, ADDRESS must be `src_ptr`; `*instr_ptr` still designates the instruction only before that
    point (the budget check) and after the loop (end of input)."""
    path = os.path.join(repo, 'cao-lang', 'src', 'vm.rs')
    src = open(path).read()
    item = rscan.locate(src, dict(kind='fn', name='_run', impl=r"impl < Aux > Vm < '_ , Aux >"))
    toks = [t for t in rscan.tokenize(src) if item.body_open <= t.a < item.body_close and t.kind != 'comment']
    # the statement that saves the address, and the end of the while loop that contains it
    save = None
    for i, t in enumerate(toks):
        if t.text == 'let' and [x.text for x in toks[i + 1:i + 6]] == ['src_ptr', '=', '*', 'instr_ptr', ';']:
            save = i
    if save is None:
        raise rscan.ScanError('lost anchor: `let src_ptr = *instr_ptr;` not found in Vm::_run')
    loop_end = None
    for i, t in enumerate(toks):
        if t.text == 'while' and t.a < toks[save].a:
            j = i
            while toks[j].text != '{':
                j += 1
            c = rscan.match_close(toks, j)
            if toks[c].a > toks[save].a:
                loop_end = toks[c].a
    if loop_end is None:
        raise rscan.ScanError('lost anchor: dispatch loop of Vm::_run not found')
    findings, sites = [], 0
    for i, t in enumerate(toks):
        if t.kind == 'id' and t.text == 'payload_to_error' and toks[i + 1].text == '(' and toks[i - 1].text != 'let':
            sites += 1
            close = rscan.match_close(toks, i + 1)
            # split the arguments at top-level commas
            args, cur, k = [], [], i + 2
            while k < close:
                if toks[k].kind == 'op' and toks[k].text in rscan.OPEN:
                    e = rscan.match_close(toks, k)
                    cur += [x.text for x in toks[k:e + 1]]
                    k = e + 1
                    continue
                if toks[k].text == ',':
                    args.append(cur); cur = []
                else:
                    cur.append(toks[k].text)
                k += 1
            if cur:
                args.append(cur)
            addr = ' '.join(args[1]) if len(args) >= 2 else '?'
            in_loop_after_save = toks[save].a < t.a < loop_end
            ok = (addr == 'src_ptr') if in_loop_after_save else (addr in ('* instr_ptr', 'src_ptr'))
            if not ok:
                line = src.count('\n', 0, t.a) + 1
                findings.append(dict(file='cao-lang/src/vm.rs', line=line, fn='_run', text='payload_to_error(.., %s, ..)' % addr,
                                     expected='src_ptr (the address of the instruction being executed)'))
    return dict(name='error_site_address', sites=sites, findings=findings,
                statement='every error raised inside the dispatch loop of Vm::_run is built from the address of the instruction being executed (src_ptr)')

SCANS = {'budget_write_set': budget_write_set, 'error_site_address': error_site_address}

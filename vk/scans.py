"""Syntactic scans that back a stated frame assumption of a Verus skeleton unit.

A scan is not a proof: it is listed in the trusted base.  It is deterministic and its finding (a
source site) is the failing "input" of the violation it reports."""
import os, re
from . import rscan

def _enclosing_fn(toks, i):
    """name of the innermost fn whose body contains token i (or None)"""
    best = None
    for k, t in enumerate(toks):
        if t.kind == 'id' and t.text == 'fn' and k + 1 < len(toks) and toks[k + 1].kind == 'id' and t.a < toks[i].a:
            j = k
            while j < len(toks) and not (toks[j].kind == 'op' and toks[j].text in ('{', ';')):
                if toks[j].kind == 'op' and toks[j].text in ('(', '['):
                    j = rscan.match_close(toks, j)
                j += 1
            if j < len(toks) and toks[j].text == '{':
                c = rscan.match_close(toks, j)
                if toks[j].a < toks[i].a < toks[c].a:
                    best = toks[k + 1].text
    return best

def budget_write_set(repo):
    """every occurrence of the budget fields outside the functions whose text the vm_run unit verifies
    (or that only initialise them) breaks the frame assumption of `dispatch`"""
    allowed_fns = {'new', 'with_max_iter', 'run', '_run'}
    root = os.path.join(repo, 'cao-lang', 'src')
    findings, sites = [], 0
    for d, _, files in os.walk(root):
        for f in sorted(files):
            if not f.endswith('.rs') or f == 'tests.rs' or 'test' in os.path.basename(d):
                continue
            path = os.path.join(d, f)
            src = open(path).read()
            if 'remaining_iters' not in src and 'max_instr' not in src:
                continue
            toks = rscan.tokenize(src)
            for i, t in enumerate(toks):
                if t.kind == 'id' and t.text in ('remaining_iters', 'max_instr'):
                    sites += 1
                    fn = _enclosing_fn(toks, i)
                    rel = os.path.relpath(path, repo)
                    line = src.count('\n', 0, t.a) + 1
                    if fn is None:
                        # field declaration in `struct Vm`
                        if rel.endswith('cao-lang/src/vm.rs') and toks[i + 1].text == ':':
                            continue
                    elif rel.endswith('cao-lang/src/vm.rs') and fn in allowed_fns:
                        continue
                    text = src[src.rfind('\n', 0, t.a) + 1: src.find('\n', t.a)].strip()
                    findings.append(dict(file=rel, line=line, fn=fn, field=t.text, text=text))
    return dict(name='budget_write_set', sites=sites, findings=findings,
                statement='the budget fields remaining_iters / max_instr are only mentioned in Vm::{new, with_max_iter, run, _run}')

SCANS = {'budget_write_set': budget_write_set}

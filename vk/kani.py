"""Kani pipeline (filled in below)."""
def run_groups(repo, verif, groups, workdir, tier):
    raise NotImplementedError

"""Kani pipeline: copy /repo's cao-lang crate to a scratch dir, inject cfg(kani)-only contract
attributes and harness modules, run `cargo kani`, classify per harness.

Group description: specs/kani/<group>/group.json
 {
  "inject": [
    {"file": "src/x.rs", "mod": "verif_x", "harness": "harness.rs"},          # append a child module
    {"file": "src/x.rs", "before_fn": "pad_pot", "impl": null, "attrs": ["#[cfg_attr(kani, kani::requires(..))]"]},
    {"file": "src/x.rs", "widen": "fn conversion_error"}                        # private item -> pub(crate)
  ],
  "harnesses": [
    {"name": "verif_x::h", "kind": "complete"|"bounded", "bound": "...", "clause": "...", "tier": "quick"|"thorough",
     "covers": 1, "timeout": 300}
  ]
 }
A harness is `complete` only if it is loop-free over full-domain symbolic inputs, or every loop in
it is bounded by operand width and unwound to it with unwinding assertions on.
"""
import json, os, re, shutil, subprocess, time
from . import rscan
from .rscan import ScanError

class KaniResult:
    def __init__(self):
        self.harnesses = []     # dict(name, group, kind, status, checks, failed_checks, time_s, covers_ok, bound, clause)
        self.failures = []
        self.undecided = []
        self.assumptions = []
        self.cmd = ''
        self.build_s = 0.0
        self.wall_s = 0.0
    def evidence(self):
        comp = [h for h in self.harnesses if h['kind'] == 'complete']
        bnd = [h for h in self.harnesses if h['kind'] == 'bounded']
        return dict(
            cmd=self.cmd,
            complete_checks=sum(h['checks'] for h in comp),
            complete_checks_ok=sum(h['checks'] - h['failed_checks'] for h in comp if h['status'] in ('success', 'failure')),
            complete_harnesses=[dict(name=h['name'], status=h['status'], cbmc_properties=h['checks'], time_s=h['time_s'], clause=h['clause']) for h in comp],
            bounded=[dict(name=h['name'], status=h['status'], bound=h['bound'], cbmc_properties=h['checks'], time_s=h['time_s'], clause=h['clause']) for h in bnd],
            build_s=round(self.build_s, 1), wall_s=round(self.wall_s, 1),
            samples=[dict(backend='kani', harness=h['name'], clause=h['clause'], status=h['status']) for h in self.harnesses[:4]],
            # harnesses that pin a recorded known finding: expected to fail while the finding is open; never counted
            known_finding_probes=[dict(name=h['name'], status=h['status'], clause=h['clause'], time_s=h['time_s']) for h in self.harnesses if h['kind'] == 'finding'],
        )

def _inject(crate, verif, group, g):
    gdir = os.path.join(verif, 'specs', 'kani', group)
    for inj in g.get('inject', []):
        path = os.path.join(crate, inj['file'])
        try:
            src = open(path).read()
        except OSError as e:
            raise ScanError('lost anchor: %s' % e)
        if 'harness' in inj:
            hp = os.path.join(crate, 'verif_kani_%s_%s' % (group, os.path.basename(inj['harness'])))
            shutil.copy(os.path.join(gdir, inj['harness']), hp)
            src += '\n#[cfg(kani)]\n#[path = "%s"]\nmod %s;\n' % (hp, inj['mod'])
        elif 'before_fn' in inj:
            item = rscan.locate(src, dict(kind='fn', name=inj['before_fn'], impl=inj.get('impl')))
            lines = ''.join(a + '\n' for a in inj['attrs'])
            for a in inj['attrs']:
                if not a.startswith('#[cfg_attr(kani,'):
                    raise ScanError('injected attribute is not guarded by cfg(kani): ' + a)
            src = src[:item.attrs_start] + lines + src[item.attrs_start:]
        elif 'widen' in inj:
            # visibility only: `fn x` / `struct X` / `const X` -> pub(crate)
            pat = inj['widen']
            n = len(re.findall(r'(?m)^(\s*)' + re.escape(pat) + r'\b', src))
            if n != 1:
                raise ScanError('lost anchor: widen `%s` matched %d times in %s' % (pat, n, inj['file']))
            src = re.sub(r'(?m)^(\s*)' + re.escape(pat) + r'\b', r'\1pub(crate) ' + pat, src, count=1)
        else:
            raise ScanError('unknown injection %r' % inj)
        open(path, 'w').write(src)

def prepare_crate(repo, workdir):
    crate = os.path.join(workdir, 'cao-lang')
    if os.path.exists(crate):
        shutil.rmtree(crate)
    shutil.copytree(os.path.join(repo, 'cao-lang'), crate, ignore=shutil.ignore_patterns('target', 'benches', 'tests'))
    shutil.copy(os.path.join(repo, 'Cargo.lock'), os.path.join(crate, 'Cargo.lock'))
    # a stand-alone package (the workspace root is not copied); benches are dropped
    toml = open(os.path.join(crate, 'Cargo.toml')).read()
    toml = re.sub(r'(?s)\[\[bench\]\].*?(?=\n\[)', '', toml)
    toml += '\n[workspace]\n'
    open(os.path.join(crate, 'Cargo.toml'), 'w').write(toml)
    os.makedirs(os.path.join(crate, '.cargo'), exist_ok=True)
    open(os.path.join(crate, '.cargo', 'config.toml'), 'w').write('[net]\noffline = true\n')
    return crate

_RES_RE = re.compile(r'^Checking harness (\S+?)\.\.\.', re.M)

def _parse_terse(out):
    """split `--output-format terse` output per harness (sequential or `Thread N:` interleaved)"""
    res = {}
    blocks = {}
    cur_of_thread = {}
    cur = None
    for line in out.splitlines():
        m = re.match(r'^(?:Thread (\d+): )?Checking harness (\S+?)\.\.\.', line)
        if m:
            cur_of_thread[m.group(1)] = m.group(2)
            cur = m.group(2)
            blocks.setdefault(cur, [])
            continue
        m = re.match(r'^Thread (\d+):\s*(.*)$', line)
        if m:
            cur = cur_of_thread.get(m.group(1))
            line = m.group(2)
        if cur is not None:
            blocks[cur].append(line)
    parts = [None] + [name + '...' + '\n'.join(b) for name, b in blocks.items()]
    for p in parts[1:]:
        name = p.split('...', 1)[0].strip()
        status = 'unknown'
        if 'VERIFICATION:- SUCCESSFUL' in p:
            status = 'success'
        elif 'VERIFICATION:- FAILED' in p:
            status = 'failure'
        m = re.search(r'\*\* (\d+) of (\d+) failed', p)
        failed, total = (int(m.group(1)), int(m.group(2))) if m else (0, 0)
        mc = re.search(r'\*\* (\d+) of (\d+) cover properties satisfied', p)
        covers = (int(mc.group(1)), int(mc.group(2))) if mc else (0, 0)
        mt = re.search(r'Verification Time: ([0-9.]+)s', p)
        fails = re.findall(r'(?m)^Failed Checks: (.*)$', p)
        locs = re.findall(r'(?m)^\s*File: "([^"]+)", line (\d+), in (\S+)', p)
        timeout = 'timed out' in p.lower() or 'timeout' in p.lower()
        oom = 'out of memory' in p.lower() or 'killed' in p.lower() or 'CBMC failed' in p
        if (oom or timeout) and not fails:
            status = 'unknown'   # resource cap: undecided, never an alarm
        unwind = any('unwinding assertion' in f for f in fails)
        res[name] = dict(status=status, failed=failed, total=total, covers=covers, time=float(mt.group(1)) if mt else 0.0,
                         failed_checks=fails, locs=locs, timeout=timeout, oom=oom, unwind=unwind, text=p[-3000:])
    return res

def run_groups(repo, verif, groups, workdir, tier, jobs=None):
    t0 = time.time()
    R = KaniResult()
    os.makedirs(workdir, exist_ok=True)
    tmp = os.path.join(workdir, 'tmp')
    os.makedirs(tmp, exist_ok=True)
    want = []
    try:
        crate = prepare_crate(repo, workdir)
        for group in groups:
            g = json.load(open(os.path.join(verif, 'specs', 'kani', group, 'group.json')))
            _inject(crate, verif, group, g)
            for h in g['harnesses']:
                if h.get('tier', 'quick') == 'thorough' and tier != 'thorough':
                    continue
                want.append(dict(h, group=group))
            R.assumptions += g.get('assumptions', [])
    except (ScanError, OSError, ValueError) as e:
        R.undecided.append('injection: %s' % e)
        R.wall_s = time.time() - t0
        return R
    if not want:
        R.wall_s = time.time() - t0
        return R
    max_to = max(int(h.get('timeout', 300)) for h in want)
    cmd = ['cargo', 'kani', '--solver', 'kissat', '-Z', 'function-contracts', '-Z', 'stubbing', '-Z', 'unstable-options',
           '--harness-timeout', '%ds' % max_to, '-j', str(jobs or min(12, len(want))), '--output-format', 'terse', '--exact']
    for h in want:
        cmd += ['--harness', h['name']]
    env = dict(os.environ, CARGO_NET_OFFLINE='true', TMPDIR=tmp, CARGO_TARGET_DIR=os.path.join(workdir, 'target'))
    R.cmd = 'CARGO_NET_OFFLINE=true ' + ' '.join(cmd[:14]) + ' --harness <%d harnesses>' % len(want)
    try:
        p = subprocess.run(cmd, cwd=crate, capture_output=True, text=True, env=env, timeout=max_to * 3 + 900)
        out = p.stdout + '\n' + p.stderr
    except subprocess.TimeoutExpired as e:
        out = ((e.stdout or b'').decode(errors='replace') if isinstance(e.stdout, bytes) else (e.stdout or ''))
        R.undecided.append('cargo kani exceeded the global time cap')
        subprocess.run(['pkill', '-x', 'cbmc'])
    open(os.path.join(workdir, 'kani.log'), 'w').write(out)
    if 'error: could not compile' in out or 'error[E' in out:
        errs = re.findall(r'(?m)^error.*$', out)[:5]
        R.undecided.append('harness crate does not compile (anchor moved or signature changed): %s' % ' | '.join(errs))
        R.wall_s = time.time() - t0
        return R
    per = _parse_terse(out)
    for h in want:
        name = h['name']
        r = per.get(name)
        rec = dict(name=name, group=h['group'], kind=h.get('kind', 'bounded'), bound=h.get('bound', ''), clause=h.get('clause', ''),
                   status='missing', checks=0, failed_checks=0, time_s=0.0)
        if r is None:
            R.undecided.append('harness %s produced no result (cap exceeded, crash or renamed)' % name)
            R.harnesses.append(rec)
            continue
        rec.update(status=r['status'], checks=r['total'], failed_checks=r['failed'], time_s=r['time'])
        if r['status'] == 'unknown' or r['timeout'] and r['status'] != 'success':
            rec['status'] = 'undecided'
            R.undecided.append('harness %s: no verdict (timeout/memory cap)' % name)
        elif r['status'] == 'failure':
            ign = h.get('ignore_checks', [])
            real = [f for f in r['failed_checks'] if 'unwinding assertion' not in f]
            # CBMC property classes that are not Rust panics (e.g. IEEE NaN results) can be declared benign
            real = ['; '.join(x for x in [y.strip() for y in f.split(';')] if not any(x.startswith(i) for i in ign)) for f in real]
            real = [f for f in real if f]
            if not real and not r['unwind']:
                rec['status'] = 'success'
                rec['failed_checks'] = 0
                rec['note'] = 'only checks declared benign failed: %s' % ign
                R.harnesses.append(rec)
                continue
            if r['unwind'] and not real:
                rec['status'] = 'undecided'
                R.undecided.append('harness %s: unwinding assertion failed (bound too small for this code)' % name)
            else:
                expected = h.get('expect_fail')
                R.failures.append(dict(backend='kani', unit='kani:' + h['group'], harness=name, fn=name.split('::')[-1], kind='kani-check',
                                       clause='; '.join(real)[:400], obligation='kani::%s::%s' % (name, '; '.join(real)[:200]),
                                       message='Kani: VERIFICATION FAILED', rendered=r['text'], in_extracted_fn=True,
                                       failing_input=None, bounded=h.get('kind') != 'complete'))
        elif r['status'] == 'success':
            need = h.get('covers')
            if r['covers'][1] and r['covers'][0] < r['covers'][1] and not h.get('allow_unsat_covers'):
                rec['status'] = 'undecided'
                R.undecided.append('harness %s: %d of %d cover properties satisfied (vacuous harness?)' % (name, r['covers'][0], r['covers'][1]))
            if need and r['covers'][1] < need:
                rec['status'] = 'undecided'
                R.undecided.append('harness %s: expected >= %d cover properties, saw %d' % (name, need, r['covers'][1]))
        R.harnesses.append(rec)
    R.wall_s = time.time() - t0
    return R

"""Run one Verus unit: generate (main + canary), verify both, classify diagnostics."""
import json, os, re, subprocess, time, threading
from . import vspec, rscan
from .rscan import ScanError

VERUS_FLAGS = ['--triggers-mode', 'silent', '--output-json', '--time', '--multiple-errors', '20',
               '--error-format=json', '--no-report-long-running']

# messages that are a definite refutation of a named obligation
DEFINITE = [
    ('postcondition not satisfied', 'postcondition'),
    ('precondition not satisfied', 'precondition'),
    ('assertion failed', 'assertion'),
    ('invariant not satisfied before loop', 'invariant-init'),
    ('invariant not satisfied at end of loop body', 'invariant-preserved'),
    ('loop invariant not satisfied', 'invariant'),
    ('possible arithmetic underflow/overflow', 'overflow'),
    ('possible division by zero', 'div-by-zero'),
    ('decreases not satisfied', 'termination'),
    ('could not prove termination', 'termination'),
    ('possible bit shift underflow/overflow', 'overflow'),
    ('failed precondition', 'precondition'),
    ('recommendation not met', None),         # warnings only
    ('loop ensures not satisfied', 'loop-ensures'),
    ('unable to prove', 'assertion'),
    ('cannot show invariant holds', 'invariant'),
    ('index out of bounds', 'bounds'),
    ('unwrap', 'precondition'),
]
UNDECIDED_MARKS = ['Resource limit (rlimit) exceeded', 'rlimit exceeded', 'resource limit', 'timed out', 'timeout']

class UnitResult:
    def __init__(self, unit):
        self.unit = unit
        self.verified = 0
        self.errors = 0
        self.failures = []      # dict(obligation, fn, kind, message, rendered, clause)
        self.undecided = []     # strings
        self.functions = []
        self.rule_log = []
        self.assumptions = []
        self.canaries = 0
        self.canaries_failed_as_expected = 0
        self.smt_ms = 0
        self.total_ms = 0
        self.fn_breakdown = {}
        self.cmd = ''
        self.gen_path = ''
        self.wall_s = 0.0
        self.n_contract_clauses = 0
        self.degraded = []

def _run(path, cwd, extra, timeout):
    cmd = ['verus', os.path.basename(path)] + VERUS_FLAGS + extra
    env = dict(os.environ)
    try:
        p = subprocess.run(cmd, cwd=cwd, capture_output=True, text=True, timeout=timeout, env=env)
        return cmd, p.returncode, p.stdout, p.stderr
    except subprocess.TimeoutExpired as e:
        return cmd, -9, (e.stdout or b'').decode() if isinstance(e.stdout, bytes) else (e.stdout or ''), 'TIMEOUT'

def _parse(stdout, stderr):
    diags = []
    for line in stderr.splitlines():
        line = line.strip()
        if line.startswith('{') and '"$message_type"' in line:
            try:
                d = json.loads(line)
            except ValueError:
                continue
            if d.get('$message_type') == 'diagnostic':
                diags.append(d)
    js = None
    i = stdout.find('{')
    if i >= 0:
        try:
            js = json.loads(stdout[i:])
        except ValueError:
            js = None
    return diags, js

def _byte_to_char(text):
    if text.isascii():
        return lambda b: b
    enc = []
    for ci, ch in enumerate(text):
        enc += [ci] * len(ch.encode())
    enc.append(len(text))
    return lambda b: enc[min(b, len(enc) - 1)]

def _classify(msg):
    for m in UNDECIDED_MARKS:
        if m.lower() in msg.lower():
            return 'undecided', None
    for m, kind in DEFINITE:
        if m in msg:
            return 'definite', kind
    return 'other', None

def _clause_text(g, span, b2c):
    a, b = b2c(span['byte_start']), b2c(span['byte_end'])
    return rscan.norm(g.text[a:b])[:300]

def scan_assumptions(g):
    """mechanical scan of the generated text for unchecked assumptions"""
    out = []
    text = g.text
    for m in re.finditer(r'assume_specification\s*(?:<[^>]*>)?\s*\[([^\]]*)\]', text):
        out.append('assume_specification: ' + ' '.join(m.group(1).split()))
    for m in re.finditer(r'#\[verifier::external_body\]', text):
        tail = text[m.end():m.end() + 400]
        n = re.search(r'\bfn\s+(\w+)', tail)
        out.append('external_body: ' + (n.group(1) if n else '?'))
    for m in re.finditer(r'\b(assume|admit)\s*\(', text):
        fn = vspec.enclosing_template_fn(text, m.start())
        out.append('%s() in %s' % (m.group(1), fn))
    for m in re.finditer(r'#\[verifier::(external|external_fn_specification|external_type_specification|exec_allows_no_decreases_clause|truncate)\]', text):
        out.append('verifier::%s' % m.group(1))
    for m in re.finditer(r'global\s+size_of\s+(\w+)\s*==\s*(\d+)', text):
        out.append('global size_of %s == %s (64-bit target)' % (m.group(1), m.group(2)))
    for m in re.finditer(r'\baxiom\s+fn\s+(\w+)', text):
        out.append('axiom fn ' + m.group(1))
    return out

def run_unit(repo, spec_path, workdir, rlimit=None, timeout=900, with_canary=True, smt_seed=None):
    t0 = time.time()
    name = os.path.splitext(os.path.basename(spec_path))[0]
    res = UnitResult(name)
    try:
        g = vspec.generate(repo, spec_path, canary=False)
        gc = vspec.generate(repo, spec_path, canary=True) if with_canary else None
    except ScanError as e:
        res.undecided.append('extraction: %s' % e)
        # the code no longer has the shape the rewrite rules / anchors expect: nothing can be verified;
        # the check may still look for a concrete failing input on the real code
        res.degraded = ['extraction failed: %s' % e]
        res.wall_s = time.time() - t0
        return res
    res.functions = g.functions
    res.degraded = [l for f in g.functions for l in f.get('lost_splices', [])]
    res.rule_log = g.rule_log
    res.assumptions = scan_assumptions(g)
    # contracts imported from another unit are not unchecked assumptions: say where they are verified
    for f in g.functions:
        if f.get('stub'):
            tag = 'external_body: ' + f['name']
            if tag in res.assumptions:
                res.assumptions.remove(tag)
            res.assumptions.append('contract of %s imported from unit %s (its body is verified there; the check runs that unit too)' % (f['name'], f.get('from_unit')))
    res.generated = g
    os.makedirs(workdir, exist_ok=True)
    path = os.path.join(workdir, name + '.rs')
    open(path, 'w').write(g.text)
    res.gen_path = path
    extra = ['--rlimit', str(rlimit)] if rlimit else []
    extra += list(g.unit.verus_flags)
    if smt_seed is not None:
        extra += ['--smt-option', 'smt.random_seed=%d' % smt_seed, '--smt-option', 'sat.random_seed=%d' % smt_seed]
    for fl in g.unit.verus_flags:
        res.assumptions.append('verus flag %s%s' % (fl, ' (ghost/proof code is not lifetime-checked; exec code is unaffected)' if fl == '--no-lifetime' else ''))
    results = {}
    def job(key, p):
        results[key] = _run(p, workdir, extra, timeout)
    threads = [threading.Thread(target=job, args=('main', path))]
    if gc is not None:
        cpath = os.path.join(workdir, name + '__canary.rs')
        open(cpath, 'w').write(gc.text)
        threads.append(threading.Thread(target=job, args=('canary', cpath)))
    for t in threads: t.start()
    for t in threads: t.join()
    cmd, rc, so, se = results['main']
    res.cmd = ' '.join(cmd)
    if se == 'TIMEOUT':
        res.undecided.append('verus timed out after %ds' % timeout)
        res.wall_s = time.time() - t0
        return res
    diags, js = _parse(so, se)
    b2c = _byte_to_char(g.text)
    if js is None:
        res.undecided.append('verus produced no result json (rc=%s): %s' % (rc, se[-600:]))
        res.wall_s = time.time() - t0
        return res
    vr = js.get('verification-results', {})
    res.verified = vr.get('verified', 0)
    res.errors = vr.get('errors', 0)
    tm = js.get('times-ms', {})
    res.total_ms = tm.get('total', 0)
    res.smt_ms = tm.get('smt', {}).get('total', 0)
    for mod in tm.get('smt', {}).get('smt-run-module-times', []):
        for fb in mod.get('function-breakdown', []):
            res.fn_breakdown[fb['function']] = dict(ms=fb.get('time', 0), rlimit=fb.get('rlimit', 0), success=fb.get('success'))
    if vr.get('encountered-vir-error'):
        res.undecided.append('verus front-end error (unsupported construct or type error in the generated unit)')
    for d in diags:
        if d.get('level') != 'error':
            continue
        msg = d.get('message', '')
        if msg.startswith('aborting due to'):
            continue
        cls, kind = _classify(msg)
        spans = d.get('spans', [])
        prim = [s for s in spans if s.get('is_primary')] or spans
        if cls == 'undecided':
            res.undecided.append('rlimit/timeout: %s' % d.get('rendered', msg)[:400])
            continue
        if cls == 'other' or not prim:
            res.undecided.append('verus error outside the obligation vocabulary: %s' % d.get('rendered', msg)[:600])
            continue
        if kind is None:
            continue
        # where the failing clause lives (primary span) and where it was needed (other spans)
        p = prim[0]
        f, sid = vspec.locate_offset(g, b2c(p['byte_start']))
        clause = _clause_text(g, p, b2c)
        site_f, site = None, None
        for s in spans:
            ff, ss = vspec.locate_offset(g, b2c(s['byte_start']))
            if ff is not None:
                site_f, site = ff, ss
                if not s.get('is_primary'):
                    break
        owner = f or site_f
        if owner is not None:
            fn_name = owner['name']
        else:
            fn_name = vspec.enclosing_template_fn(g.text, b2c(p['byte_start'])) or '?'
        secondary = [_clause_text(g, s, b2c) for s in spans if not s.get('is_primary')]
        obligation = '%s::%s::%s::%s' % (name, fn_name, kind, clause)
        res.failures.append(dict(obligation=obligation, unit=name, fn=fn_name, kind=kind, clause=clause,
                                 gen_offset=(site_f or f or {}).get('gen_range', [-1])[0] if (site_f or f) else -1,
                                 in_extracted_fn=owner is not None, where=sid, at=secondary,
                                 message=msg, rendered=d.get('rendered', '')))
    if res.errors and not res.failures and not res.undecided:
        res.undecided.append('verus reported %d errors but none could be parsed' % res.errors)
    # canary run: every canary must be refuted
    if gc is not None:
        ccmd, crc, cso, cse = results['canary']
        cdiags, cjs = _parse(cso, cse)
        cb2c = _byte_to_char(gc.text)
        want = []
        for f in gc.functions:
            for a, b, sid, _ in f['spans']:
                if sid.startswith('canary:'):
                    want.append((a, b, f['name'], sid))
        res.canaries = len(want)
        hit = set()
        for d in cdiags:
            if 'assertion failed' not in d.get('message', ''):
                continue
            for s in d.get('spans', []):
                o = cb2c(s['byte_start'])
                for a, b, fn, sid in want:
                    if a <= o < b:
                        hit.add((fn, sid))
        res.canaries_failed_as_expected = len(hit)
        missing = [(fn, sid) for a, b, fn, sid in want if (fn, sid) not in hit]
        if cse == 'TIMEOUT' or cjs is None:
            res.undecided.append('canary run did not complete')
        elif missing:
            res.undecided.append('vacuity canary not refuted (contradictory requires/invariant?): %s' % missing)
        if not want:
            res.undecided.append('no canaries generated: unit has no contracts')
    if res.verified == 0:
        res.undecided.append('zero obligations verified')
    res.n_contract_clauses = sum(1 for f in g.functions for s in f['spans'] if not s[2].startswith('ret'))
    res.wall_s = time.time() - t0
    return res

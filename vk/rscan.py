"""Rust source scanner used by the extractor: tokenizer (string/comment/lifetime aware),
bracket matching, item location (struct / enum / fn / fn inside an impl block), loop and
statement location inside a function body, and a small token-pattern matcher for the rewrite
rules.  Python stdlib only.  Offsets are byte offsets into the *text given* (files are ASCII or
UTF-8; we index python strings, and only ever slice the same string we tokenised)."""
import re

class ScanError(Exception):
    """lost anchor / unsupported construct: the caller turns this into exit 2, never an alarm"""

_ID = re.compile(r'[A-Za-z_][A-Za-z0-9_]*')
_NUM = re.compile(r'\d[0-9a-zA-Z_]*(?:\.(?!\.)(?![A-Za-z_])[0-9a-zA-Z_]*)?')
_CHAR = re.compile(r"'(?:\\x[0-9a-fA-F]{2}|\\u\{[0-9a-fA-F_]+\}|\\.|[^\\'])'")
_LIFE = re.compile(r"'[A-Za-z_][A-Za-z0-9_]*")
_RAWSTR = re.compile(r'b?r(#*)"')
_OPS = ('<<=', '>>=', '...', '..=', '::', '->', '=>', '==', '!=', '<=', '>=', '&&', '||', '+=', '-=',
        '*=', '/=', '%=', '^=', '&=', '|=', '<<', '>>', '..')

class Tok:
    __slots__ = ('kind', 'text', 'a', 'b')
    def __init__(self, kind, text, a, b):
        self.kind, self.text, self.a, self.b = kind, text, a, b
    def __repr__(self):
        return '%s:%r@%d' % (self.kind, self.text, self.a)

def tokenize(src, keep_comments=False):
    toks = []
    i, n = 0, len(src)
    while i < n:
        c = src[i]
        if c.isspace():
            i += 1
            continue
        if src.startswith('//', i):
            j = src.find('\n', i)
            j = n if j < 0 else j
            if keep_comments:
                toks.append(Tok('comment', src[i:j], i, j))
            i = j
            continue
        if src.startswith('/*', i):
            depth, j = 1, i + 2
            while j < n and depth:
                if src.startswith('/*', j):
                    depth += 1; j += 2
                elif src.startswith('*/', j):
                    depth -= 1; j += 2
                else:
                    j += 1
            if keep_comments:
                toks.append(Tok('comment', src[i:j], i, j))
            i = j
            continue
        m = _RAWSTR.match(src, i)
        if m:
            close = '"' + m.group(1)
            j = src.find(close, m.end())
            if j < 0:
                raise ScanError('unterminated raw string at %d' % i)
            j += len(close)
            toks.append(Tok('str', src[i:j], i, j)); i = j
            continue
        if c == '"' or (c == 'b' and i + 1 < n and src[i + 1] == '"'):
            j = i + (2 if c == 'b' else 1)
            while j < n and src[j] != '"':
                j += 2 if src[j] == '\\' else 1
            j += 1
            toks.append(Tok('str', src[i:j], i, j)); i = j
            continue
        if c == "'" or (c == 'b' and i + 1 < n and src[i + 1] == "'"):
            k = i + (1 if c == 'b' else 0)
            m = _CHAR.match(src, k)
            if m:
                toks.append(Tok('char', src[i:m.end()], i, m.end())); i = m.end()
                continue
            m = _LIFE.match(src, k)
            if m:
                toks.append(Tok('life', src[i:m.end()], i, m.end())); i = m.end()
                continue
        m = _ID.match(src, i)
        if m:
            toks.append(Tok('id', m.group(0), i, m.end())); i = m.end()
            continue
        m = _NUM.match(src, i)
        if m:
            toks.append(Tok('num', m.group(0), i, m.end())); i = m.end()
            continue
        for op in _OPS:
            if src.startswith(op, i):
                toks.append(Tok('op', op, i, i + len(op))); i += len(op)
                break
        else:
            toks.append(Tok('op', c, i, i + 1)); i += 1
    return toks

OPEN = {'(': ')', '[': ']', '{': '}'}
CLOSE = {v: k for k, v in OPEN.items()}

def match_close(toks, i):
    """index of the token closing the bracket opened at toks[i]"""
    depth = 0
    for j in range(i, len(toks)):
        t = toks[j]
        if t.kind != 'op':
            continue
        if t.text in OPEN:
            depth += 1
        elif t.text in CLOSE:
            depth -= 1
            if depth == 0:
                return j
    raise ScanError('unbalanced bracket at token %d (%r)' % (i, toks[i]))

def norm(text):
    """whitespace/comment-insensitive normal form of a piece of Rust text"""
    return ' '.join(t.text for t in tokenize(text))

# --------------------------------------------------------------------------- items

class Item:
    """a located item: [start, end) is the whole item text, body_open/body_close are the offsets
    of its outermost braces (or None for `struct X(..);`)"""
    def __init__(self, kind, name, start, end, body_open, body_close, attrs_start):
        self.kind, self.name, self.start, self.end = kind, name, start, end
        self.body_open, self.body_close, self.attrs_start = body_open, body_close, attrs_start

_QUALS = ('pub', 'unsafe', 'const', 'async', 'extern', 'default')

def _item_start(toks, i):
    """walk back from the keyword token over qualifiers, `pub(crate)` and attributes; returns
    (index of first token of the item proper, index of the first attribute token)"""
    s = i
    while s > 0:
        p = toks[s - 1]
        if p.kind == 'id' and p.text in _QUALS:
            s -= 1
            continue
        if p.kind == 'op' and p.text == ')':  # pub(crate)
            d, k = 0, s - 1
            while k >= 0:
                if toks[k].text == ')': d += 1
                elif toks[k].text == '(':
                    d -= 1
                    if d == 0: break
                k -= 1
            if k > 0 and toks[k - 1].text == 'pub':
                s = k - 1
                continue
        break
    a = s
    while a > 1 and toks[a - 1].text == ']':
        d, k = 0, a - 1
        while k >= 0:
            if toks[k].text == ']': d += 1
            elif toks[k].text == '[':
                d -= 1
                if d == 0: break
            k -= 1
        if k > 0 and toks[k - 1].text == '#':
            a = k - 1
        else:
            break
    return s, a

def _item_from_kw(src, toks, i, kind):
    name = toks[i + 1].text
    s, a = _item_start(toks, i)
    j = i + 1
    depth = 0
    while j < len(toks):
        t = toks[j]
        if t.kind == 'op':
            if t.text in ('(', '['):
                j = match_close(toks, j)
            elif t.text == '{':
                k = match_close(toks, j)
                return Item(kind, name, toks[s].a, toks[k].b, toks[j].a, toks[k].a, toks[a].a)
            elif t.text == ';':
                return Item(kind, name, toks[s].a, t.b, None, None, toks[a].a)
        j += 1
    raise ScanError('no body for %s %s' % (kind, name))

def find_items(src, toks, kind, name, lo=0, hi=None):
    """all `kind name` items (kind in fn/struct/enum/const/type) whose keyword token lies in
    [lo, hi) and at brace depth `depth0` relative to that window (direct children only)"""
    hi = len(src) if hi is None else hi
    out = []
    depth = 0
    for i, t in enumerate(toks):
        if t.a < lo or t.a >= hi:
            continue
        if t.kind == 'op' and t.text == '{': depth += 1
        elif t.kind == 'op' and t.text == '}': depth -= 1
        elif depth == 0 and t.kind == 'id' and t.text == kind and i + 1 < len(toks) \
                and toks[i + 1].kind == 'id' and toks[i + 1].text == name:
            out.append(_item_from_kw(src, toks, i, kind))
    return out

def _find_items_any_depth(src, toks, kind, name, lo, hi):
    out = []
    for i, t in enumerate(toks):
        if lo <= t.a < hi and t.kind == 'id' and t.text == kind and i + 1 < len(toks) \
                and toks[i + 1].kind == 'id' and toks[i + 1].text == name:
            out.append(_item_from_kw(src, toks, i, kind))
    return out

def find_impls(src, toks, header_re):
    """impl blocks (top level or inside `mod`) whose normalised header `impl ... ` (up to the
    opening brace, where-clauses included) matches header_re (re.search)"""
    out = []
    rx = re.compile(header_re)
    for i, t in enumerate(toks):
        if t.kind == 'id' and t.text == 'impl' and (i == 0 or toks[i - 1].text in ('}', ';', ']', 'unsafe', ')') or toks[i-1].kind == 'comment'):
            j = i
            while j < len(toks) and not (toks[j].kind == 'op' and toks[j].text == '{'):
                if toks[j].kind == 'op' and toks[j].text in ('(', '['):
                    j = match_close(toks, j)
                j += 1
            if j >= len(toks):
                continue
            header = ' '.join(x.text for x in toks[i:j])
            if rx.search(header):
                k = match_close(toks, j)
                out.append((header, toks[j].b, toks[k].a))
    return out

def locate(src, spec):
    """spec: dict(kind=fn|struct|enum|const|type, name=..., impl=<regex or None>).  Exactly one match
    is required; anything else is a lost anchor."""
    toks = tokenize(src)
    kind, name = spec['kind'], spec['name']
    if spec.get('in_fn'):
        # a fn nested in the body of another fn (located with the same impl filter)
        outer = locate(src, dict(kind='fn', name=spec['in_fn'], impl=spec.get('impl')))
        found = [it for it in _find_items_any_depth(src, toks, kind, name, outer.body_open + 1, outer.body_close)]
    elif spec.get('impl'):
        impls = find_impls(src, toks, spec['impl'])
        found = []
        for header, lo, hi in impls:
            found += find_items(src, toks, kind, name, lo, hi)
    else:
        found = find_items(src, toks, kind, name)
        if not found:  # allow items nested in `mod x { }` one level down
            for i, t in enumerate(toks):
                if t.kind == 'id' and t.text == 'mod' and toks[i + 2].text == '{':
                    k = match_close(toks, i + 2)
                    found += find_items(src, toks, kind, name, toks[i + 2].b, toks[k].a)
    if len(found) != 1:
        raise ScanError('lost anchor: %s %s%s matched %d items' % (
            kind, name, (' in /' + str(spec.get('impl')) + '/') if spec.get('impl') else '', len(found)))
    return found[0]

def find_let_closure(src, outer, name):
    """inside the fn item `outer`: the statement `let NAME = |PARAMS| { BODY };` -> (start, end, params, body_block)"""
    toks = tokenize(src)
    hits = []
    for i, t in enumerate(toks):
        if t.a < outer.body_open or t.b > outer.body_close:
            continue
        if t.kind == 'id' and t.text == 'let' and i + 3 < len(toks) and toks[i + 1].text == name and toks[i + 2].text == '=' \
                and toks[i + 3].text == '|':
            j = i + 4
            while toks[j].text != '|':
                if toks[j].kind == 'op' and toks[j].text in OPEN:
                    j = match_close(toks, j)
                j += 1
            params = src[toks[i + 4].a:toks[j - 1].b] if j > i + 4 else ''
            if toks[j + 1].text != '{':
                raise ScanError('lost anchor: closure %s has no block body' % name)
            k = match_close(toks, j + 1)
            if toks[k + 1].text != ';':
                raise ScanError('lost anchor: closure %s is not a plain let statement' % name)
            hits.append((t.a, toks[k + 1].b, params, src[toks[j + 1].a:toks[k].b]))
    if len(hits) != 1:
        raise ScanError('lost anchor: closure %s in fn matched %d statements' % (name, len(hits)))
    return hits[0]

def find_match_arm(src, outer, pat):
    """inside the fn item `outer`: the match arm `PAT => { BODY }` (PAT given as token text) -> (start, end, body_block)"""
    toks = tokenize(src)
    want = [t.text for t in tokenize(pat)]
    if not want:
        raise ScanError('lost anchor: arm extract without pat=')
    hits = []
    for i, t in enumerate(toks):
        if t.a < outer.body_open or t.b > outer.body_close:
            continue
        if [x.text for x in toks[i:i + len(want)]] != want:
            continue
        j = i + len(want)
        if j + 1 >= len(toks) or toks[j].text != '=>' or toks[j + 1].text != '{':
            continue
        # the pattern must start the arm (previous token closes the previous arm or opens the match)
        if i > 0 and toks[i - 1].text not in ('{', '}', ',', '|'):
            continue
        k = match_close(toks, j + 1)
        hits.append((t.a, toks[k].b, src[toks[j + 1].a:toks[k].b]))
    if len(hits) != 1:
        raise ScanError('lost anchor: arm `%s` matched %d arms' % (pat, len(hits)))
    return hits[0]

# --------------------------------------------------------------------------- inside a function

class FnShape:
    """structural positions inside one function text (offsets relative to that text)"""
    def __init__(self, text):
        self.text = text
        self.toks = toks = tokenize(text)
        # signature / body
        i = 0
        while not (toks[i].kind == 'id' and toks[i].text == 'fn'):
            i += 1
        self.fn_tok = i
        j = i
        while not (toks[j].kind == 'op' and toks[j].text == '{'):
            if toks[j].kind == 'op' and toks[j].text in ('(', '['):
                j = match_close(toks, j)
            j += 1
        self.body_open_tok = j
        self.body_close_tok = match_close(toks, j)
        self.body_open = toks[j].a          # offset of '{'
        self.body_close = toks[self.body_close_tok].a  # offset of '}'
        # return type arrow (top level of the signature, after the parameter list)
        self.arrow_tok = None
        k = i + 2
        angle = 0
        while k < j:
            t = toks[k]
            if t.kind == 'op' and t.text == '<': angle += 1
            elif t.kind == 'op' and t.text == '>': angle -= 1
            elif t.kind == 'op' and t.text == '>>': angle -= 2
            elif t.kind == 'op' and t.text == '(' and angle == 0:
                break
            elif t.kind == 'op' and t.text in ('(', '['):
                k = match_close(toks, k)
            k += 1
        while k < j:
            if toks[k].kind == 'op' and toks[k].text in ('(', '['):
                k = match_close(toks, k)
            elif toks[k].kind == 'op' and toks[k].text == '->':
                self.arrow_tok = k
                break
            k += 1
        # `where` clause start (contracts go before the body brace; result naming ends before `where`)
        self.where_tok = None
        k = i
        while k < j:
            if toks[k].kind == 'op' and toks[k].text in ('(', '['):
                k = match_close(toks, k)
            elif toks[k].kind == 'id' and toks[k].text == 'where':
                self.where_tok = k
                break
            k += 1
        self.loops = self._find_loops()
        self.stmts = self._find_stmts()

    def _find_loops(self):
        toks = self.toks
        loops = []
        k = self.body_open_tok + 1
        while k < self.body_close_tok:
            t = toks[k]
            if t.kind == 'id' and t.text in ('loop', 'while', 'for') and not (k > 0 and toks[k - 1].text in ('.', '::')):
                # label `'a: loop`
                start = k
                if k >= 2 and toks[k - 1].text == ':' and toks[k - 2].kind == 'life':
                    start = k - 2
                j = k + 1
                while not (toks[j].kind == 'op' and toks[j].text == '{'):
                    if toks[j].kind == 'op' and toks[j].text in ('(', '['):
                        j = match_close(toks, j)
                    j += 1
                c = match_close(toks, j)
                loops.append(dict(kw=t.text, start=toks[start].a, open=toks[j].a, close=toks[c].a, end=toks[c].b))
            k += 1
        return loops

    def _find_stmts(self):
        """statements of every brace block in the body: list of (start, end, depth)"""
        toks = self.toks
        out = []
        def block(lo, hi, depth):  # tokens strictly inside a brace pair
            k = lo
            start = None
            first = None
            while k < hi:
                t = toks[k]
                if start is None:
                    start, first = k, t
                if t.kind == 'op' and t.text in ('(', '['):
                    c = match_close(toks, k)
                    inner_blocks(k + 1, c, depth)
                    k = c + 1
                    continue
                if t.kind == 'op' and t.text == '{':
                    c = match_close(toks, k)
                    block(k + 1, c, depth + 1)
                    k = c
                    nxt = toks[k + 1] if k + 1 < hi else None
                    blocklike = first.text in ('if', 'while', 'loop', 'for', 'match', 'unsafe', '{') or \
                        (first.kind == 'life')
                    if blocklike and not (nxt is not None and (nxt.text in ('else', '.', '?') )):
                        if nxt is not None and nxt.text == ';':
                            k += 1
                        out.append((toks[start].a, toks[k].b, depth))
                        start = None
                    k += 1
                    continue
                if t.kind == 'op' and t.text == ';':
                    out.append((toks[start].a, t.b, depth))
                    start = None
                k += 1
            if start is not None:
                out.append((toks[start].a, toks[hi - 1].b, depth))  # tail expression
        def inner_blocks(lo, hi, depth):
            k = lo
            while k < hi:
                t = toks[k]
                if t.kind == 'op' and t.text == '{':
                    c = match_close(toks, k)
                    block(k + 1, c, depth + 1)
                    k = c
                k += 1
        block(self.body_open_tok + 1, self.body_close_tok, 0)
        out.sort()
        return out

    def match_arm_ends(self):
        """offsets of the closing braces of the block-bodied arms of the first top-level `match` in the body"""
        toks = self.toks
        i = self.body_open_tok + 1
        depth = 0
        while i < self.body_close_tok:
            t = toks[i]
            if t.kind == 'op' and t.text in OPEN:
                i = match_close(toks, i) + 1
                continue
            if t.kind == 'id' and t.text == 'match':
                j = i + 1
                while not (toks[j].kind == 'op' and toks[j].text == '{'):
                    if toks[j].kind == 'op' and toks[j].text in ('(', '['):
                        j = match_close(toks, j)
                    j += 1
                close = match_close(toks, j)
                ends = []
                k = j + 1
                while k < close:
                    if toks[k].text == '=>' and toks[k + 1].text == '{':
                        e = match_close(toks, k + 1)
                        ends.append(toks[e].a)
                        k = e + 1
                        continue
                    if toks[k].kind == 'op' and toks[k].text in OPEN:
                        k = match_close(toks, k) + 1
                        continue
                    k += 1
                if not ends:
                    raise ScanError('lost anchor: the match has no block-bodied arms')
                return ends
            i += 1
        raise ScanError('lost anchor: no top-level match in the function body')

    def find_stmt(self, regex, nth=0):
        rx = re.compile(regex)
        hits = [s for s in self.stmts if rx.match(norm(self.text[s[0]:s[1]]))]
        if len(hits) <= nth:
            raise ScanError('lost anchor: no statement #%d matching /%s/' % (nth, regex))
        return hits[nth]

# --------------------------------------------------------------------------- token patterns

def parse_pattern(text):
    """pattern language: Rust tokens; `$x` binds one identifier, `$E`/`$F`.. (upper case) bind a
    non-empty balanced token run (shortest match)."""
    toks = tokenize(text)
    pat = []
    i = 0
    while i < len(toks):
        if toks[i].text == '$' and i + 1 < len(toks) and toks[i + 1].kind == 'id':
            pat.append('$' + toks[i + 1].text); i += 2
        else:
            pat.append(toks[i].text); i += 1
    return pat

def pat_match(toks, i, pat):
    env = {}
    def rec(ti, pi):
        if pi == len(pat):
            return ti
        p = pat[pi]
        if p.startswith('$') and len(p) > 1 and p[1].islower():
            if ti < len(toks) and toks[ti].kind == 'id':
                old = env.get(p)
                if old is not None and old != toks[ti].text:
                    return None
                env[p] = toks[ti].text
                r = rec(ti + 1, pi + 1)
                if r is None and old is None:
                    env.pop(p, None)
                return r
            return None
        if p.startswith('$') and len(p) > 1:
            depth, tj = 0, ti
            while tj < len(toks):
                t = toks[tj]
                if t.kind == 'op' and t.text in OPEN:
                    depth += 1
                if t.kind == 'op' and t.text in CLOSE:
                    if depth == 0:
                        break
                    depth -= 1
                if p[1] == 'X' and depth == 0 and t.kind == 'op' and t.text == ';':
                    break   # $X.. binds one expression: it never crosses a statement boundary
                tj += 1
                if depth == 0:
                    env[p] = (ti, tj)
                    r = rec(tj, pi + 1)
                    if r is not None:
                        return r
            env.pop(p, None)
            return None
        if ti < len(toks) and toks[ti].text == p:
            return rec(ti + 1, pi + 1)
        return None
    r = rec(i, 0)
    return (r, env) if r is not None else None

def _subst_ident(text, old, new):
    """replace the free identifier `old` by `new` (not field names / path segments)"""
    toks = tokenize(text)
    out, last = [], 0
    for k, t in enumerate(toks):
        if t.kind == 'id' and t.text == old and not (k > 0 and toks[k - 1].text in ('.', '::')):
            out.append(text[last:t.a]); out.append(new); last = t.b
    out.append(text[last:])
    return ''.join(out)

def _count_ident(text, names):
    return sum(1 for t in tokenize(text) if t.kind == 'id' and t.text in names)

def apply_rules(text, rules, log, where='', protect=()):
    """rules: list of (rule_id, pattern_text, replacement_text, opts).  Applies every rule everywhere
    (leftmost first, restarting after each application; a replacement must not re-match its own
    pattern).  Each application is logged.  opts: {'min': n} -> at least n applications required."""
    counts = [0] * len(rules)
    # a pattern starting with `^` only matches at the start of a statement
    parsed = [(rid, parse_pattern(p.lstrip()[1:] if p.lstrip().startswith('^') else p), r) for rid, p, r, _ in rules]
    anchored = [p.lstrip().startswith('^') for _, p, _, _ in rules]
    guard = 0
    changed = True
    while changed:
        changed = False
        guard += 1
        if guard > 2000:
            raise ScanError('rewrite does not terminate in ' + where)
        toks = tokenize(text)
        for idx, (rid, pat, repl) in enumerate(parsed):
            for i in range(len(toks)):
                # a pattern that starts with a plain identifier never matches a field / path segment
                if i > 0 and toks[i - 1].text in ('.', '::') and pat and re.match(r'[A-Za-z_]', pat[0]):
                    continue
                if anchored[idx] and i > 0 and toks[i - 1].text not in (';', '{', '}'):
                    continue
                m = pat_match(toks, i, pat)
                if not m:
                    continue
                end, env = m
                new = repl
                vals = {}
                for k, v in env.items():
                    vals[k] = text[toks[v[0]].a:toks[v[1] - 1].b] if isinstance(v, tuple) else v
                # `$B{c=self}`: the bound text with the free identifier c renamed (inlining a closure body)
                for mm in re.finditer(r'(\$[A-Za-z]\w*)\{(\w+)=(\w+)\}', new):
                    if mm.group(1) in vals:
                        new = new.replace(mm.group(0), _subst_ident(vals[mm.group(1)], mm.group(2), mm.group(3)))
                for k in sorted(vals, key=len, reverse=True):
                    new = new.replace(k, vals[k])
                a, b = toks[i].a, toks[end - 1].b
                if pat and pat[0] == 'for' and re.search(r'\bwhile\b', repl) and _count_ident(text[a:b], ('continue',)):
                    # `for x in it { B }` -> `while c { x = ..; B; step }` moves the step behind B: a `continue` in B would skip it
                    raise ScanError('rule %s: the for -> while expansion is not valid for a loop body with `continue` (%s)' % (rid, where))
                if protect and not (rules[idx][3] or {}).get('allow'):
                    # a rewrite may move protected identifiers around but never delete one: the statements the
                    # unit is about cannot be dropped by a reduction rule
                    if _count_ident(new, protect) < _count_ident(text[a:b], protect):
                        raise ScanError('rule %s `%s` would delete a protected identifier (%s) in %s: %s' % (
                            rid, rules[idx][1], ', '.join(protect), where, ' '.join(text[a:b].split())[:160]))
                log.append(dict(rule=rid, where=where, before=text[a:b], after=new))
                text = text[:a] + new + text[b:]
                counts[idx] += 1
                changed = True
                break
            if changed:
                break
    for (rid, p, r, opts), c in zip(rules, counts):
        need = (opts or {}).get('min', 0)
        if c < need:
            raise ScanError('lost anchor: rule %s `%s` applied %d times in %s, expected >= %d' % (rid, p, c, where, need))
    return text

def strip_comments(text):
    """R0 part: remove comments (keeps strings intact)"""
    out = []
    last = 0
    for t in tokenize(text, keep_comments=True):
        if t.kind == 'comment':
            out.append(text[last:t.a]); last = t.b
    out.append(text[last:])
    return ''.join(out)


# --------------------------------------------------------------------------- or-pattern splitting (R3)

def split_or_arms(text, log, where=''):
    """R3 definitional expansion: `P1 | P2 => BODY` in a match becomes `P1 => BODY, P2 => BODY`
    (Verus rejects or-patterns that bind by mutable reference).  Applied until no arm has a
    top-level `|`."""
    guard = 0
    while True:
        guard += 1
        if guard > 500:
            raise ScanError('or-split does not terminate in ' + where)
        toks = tokenize(text)
        done = True
        for i, t in enumerate(toks):
            if not (t.kind == 'id' and t.text == 'match'):
                continue
            j = i + 1
            while j < len(toks) and not (toks[j].kind == 'op' and toks[j].text == '{'):
                if toks[j].kind == 'op' and toks[j].text in ('(', '['):
                    j = match_close(toks, j)
                j += 1
            if j >= len(toks):
                continue
            close = match_close(toks, j)
            k = j + 1
            while k < close:
                # pattern: up to `=>` at depth 0
                ps = k
                bars = []
                while k < close and not (toks[k].kind == 'op' and toks[k].text == '=>'):
                    if toks[k].kind == 'op' and toks[k].text in OPEN:
                        k = match_close(toks, k)
                    elif toks[k].kind == 'op' and toks[k].text == '|':
                        bars.append(k)
                    k += 1
                if k >= close:
                    break
                arrow = k
                # body
                bs = k + 1
                if toks[bs].kind == 'op' and toks[bs].text == '{':
                    be = match_close(toks, bs)
                    k = be + 1
                    if k < close and toks[k].text == ',':
                        k += 1
                else:
                    k = bs
                    while k < close and not (toks[k].kind == 'op' and toks[k].text == ','):
                        if toks[k].kind == 'op' and toks[k].text in OPEN:
                            k = match_close(toks, k)
                        k += 1
                    be = k - 1
                    if k < close:
                        k += 1
                if bars:
                    pats = []
                    lo = ps
                    for b in bars + [arrow]:
                        pats.append(text[toks[lo].a:toks[b - 1].b])
                        lo = b + 1
                    body = text[toks[bs].a:toks[be].b]
                    new = ''.join('%s => %s,\n' % (p_, body) for p_ in pats)
                    a, b_ = toks[ps].a, toks[k - 1].b
                    log.append(dict(rule='R3.orsplit', where=where, before=' | '.join(pats) + ' => ..', after='%d arms' % len(pats)))
                    text = text[:a] + new + text[b_:]
                    done = False
                    break
            if not done:
                break
        if done:
            return text

"""Counterexample search / replay against the real crate (filled in below)."""
def search_counterexample(repo, verif, failure, scratch, seed):
    return None
def run_replay_file(repo, path):
    print('replay not implemented yet'); return 2

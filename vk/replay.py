"""Counterexample search / replay against the real crate (public API), through /verif/replay.

Not a decider.  Used (a) to attach a concrete failing input to a violation the verifier reported,
(b) as the tie-breaker when a changed function makes the solver run out of resources: a failing
input found on the real code turns 'undecided' into a violation with a replay."""
import json, os, re, shutil, subprocess

VERIF = os.path.dirname(os.path.dirname(os.path.abspath(__file__)))

# verifier unit -> replay drivers that exercise it
UNIT_MAP = {
    'value_stack': ['value_stack'],
    'bounded_stack': ['bounded_stack'],
    'handle_table': ['handle_table'],
    'hash_map': ['hash_map', 'cao_lang_table'],
    'cao_lang_table': ['cao_lang_table'],
    'object_laws': ['object_laws'],
    'frames': ['closure_capture'],
    'gc_roots': ['gc_roots', 'callback_mutation', 'operand_rooting', 'upvalue_list'],
    'upvalue_list': ['upvalue_list', 'closure_capture'],
    'host_values': ['gc_roots'],
    'stdlib_natives': ['native_keys', 'callback_mutation'],
    'instr_rooting': ['operand_rooting'],
    'native_args': ['operand_rooting'],
    'stdlib_reentry': ['callback_mutation'],
    'stdlib_contracts': ['stdlib_model'],
    'names': ['name_resolution'],
    'error_trace': ['error_trace'],
    'emission': ['decode_walk'],
    'variables': ['closure_capture', 'decode_walk'],
    'scan:error_site_address': ['error_trace'],
    'card_index': ['error_trace'],
    'module_paths': ['module_edit'],
    'card_home': ['error_trace'],
    'imports': ['name_resolution'],
    'modules': ['name_resolution'],
    'resolve': ['name_resolution'],
    'serde_hash_map': ['serde_roundtrip'],
    'serde_handle_table': ['serde_roundtrip'],
}
# (driver cyclic_table is deliberately absent: it replays the open C04 findings only -- on the pinned tree it always fails,
# so a search with it would attach the known input to an unrelated violation)
# every search leaves the input it is working on in a file (CAO_REPLAY_LAST), so a crash or a hang of the real code is
# reported with the input that caused it; a whole search normally takes a few seconds
SEARCH_TIMEOUT = 180
_built = {}

def build(repo, scratch):
    key = (repo, scratch)
    if key in _built:
        return _built[key]
    d = os.path.join(scratch, 'replay')
    if os.path.exists(d):
        shutil.rmtree(d)
    shutil.copytree(os.path.join(VERIF, 'replay'), d, ignore=shutil.ignore_patterns('target'))
    toml = open(os.path.join(d, 'Cargo.toml')).read().replace('REPO_PATH', os.path.abspath(repo))
    open(os.path.join(d, 'Cargo.toml'), 'w').write(toml)
    shutil.copy(os.path.join(repo, 'Cargo.lock'), os.path.join(d, 'Cargo.lock'))
    env = dict(os.environ, CARGO_NET_OFFLINE='true', CARGO_TARGET_DIR=os.path.join(scratch, 'replay-target'))
    p = subprocess.run(['cargo', 'build', '--offline', '--release', '-q'], cwd=d, capture_output=True, text=True, env=env, timeout=1800)
    exe = os.path.join(scratch, 'replay-target', 'release', 'cao-replay')
    if p.returncode != 0 or not os.path.exists(exe):
        raise RuntimeError('replay crate does not build against this tree: ' + p.stderr[-800:])
    _built[key] = exe
    return exe

def _parse_fail(out):
    for line in out.splitlines():
        m = re.match(r'FAIL unit=(\S+) variant=(\d+) step=(\d+) ops=(\S+) what=(.*)$', line)
        if m:
            return dict(driver=m.group(1), variant=int(m.group(2)), step=int(m.group(3)), ops=m.group(4), observed=m.group(5))
    return None

def search_unit(repo, scratch, unit, seed, iters=30000):
    drivers = UNIT_MAP.get(unit)
    if not drivers:
        return None
    exe = build(repo, scratch)
    for drv in drivers:
        for s in (seed, seed + 1, seed + 2):
            # the driver leaves the input it is working on in a file: if the real code crashes the process or does not
            # come back, that input is the failing one
            last = os.path.join(scratch, 'replay-last-%s.txt' % drv)
            env = dict(os.environ, CAO_REPLAY_LAST=last)
            hung = False
            try:
                p = subprocess.run([exe, drv, 'search', str(s + 1), str(iters)], capture_output=True, text=True, timeout=SEARCH_TIMEOUT, env=env)
            except subprocess.TimeoutExpired:
                hung = True
                p = None
            f = _parse_fail(p.stdout) if p is not None else None
            if f:
                f['how_to_replay'] = 'bin/check <property> --replay <this file>  (re-runs: cao-replay %s replay %d %s)' % (drv, f['variant'], f['ops'])
                return f
            if hung or p.returncode not in (0, 1):
                # a crash / hang of the real code under the driver is itself a failing input
                ops, variant = '', -1
                try:
                    u, variant, ops = open(last).read().split(' ', 2)
                    variant = int(variant)
                except (OSError, ValueError):
                    pass
                what = ('the real code did not return within %d s on this input (a whole search of %d sequences takes seconds)' % (SEARCH_TIMEOUT, iters)) if hung else \
                       ('the real code terminated the process abnormally on this input (rc=%s, e.g. -11 = SIGSEGV): %s' % (p.returncode, (p.stderr or '')[-300:]))
                return dict(driver=drv, variant=variant, step=-1, ops=ops, observed=what,
                            how_to_replay='bin/check <property> --replay <this file>  (re-runs: cao-replay %s replay %d %s)' % (drv, variant, ops))
    return None

def explore(repo, scratch, driver, seed, iters):
    exe = build(repo, scratch)
    last = os.path.join(scratch, 'replay-last-%s.txt' % driver)
    try:
        p = subprocess.run([exe, driver, 'search', str(seed + 11), str(iters)], capture_output=True, text=True, timeout=3600,
                           env=dict(os.environ, CAO_REPLAY_LAST=last))
    except subprocess.TimeoutExpired:
        try:
            u, variant, ops = open(last).read().split(' ', 2)
        except (OSError, ValueError):
            variant, ops = -1, ''
        return iters, dict(driver=driver, variant=int(variant), step=-1, ops=ops, observed='the real code did not return within an hour on this input')
    f = _parse_fail(p.stdout)
    return iters, f

def search_counterexample(repo, verif, failure, scratch, seed):
    unit = failure.get('unit') or ''
    return search_unit(repo, scratch, unit, seed)

def run_replay_file(repo, path):
    rep = json.load(open(path))
    fi = rep.get('failing_input')
    if not fi or not fi.get('ops'):
        print('replay file has no executable failing input (obligation: %s)' % rep.get('obligation'))
        print(rep.get('verifier_output', '')[:2000])
        return 2
    import tempfile
    scratch = tempfile.mkdtemp(prefix='caoreplay-')
    try:
        exe = build(repo, scratch)
        try:
            p = subprocess.run([exe, fi['driver'], 'replay', str(fi['variant']), fi['ops']], capture_output=True, text=True, timeout=SEARCH_TIMEOUT)
        except subprocess.TimeoutExpired:
            print('the real code still does not return on this input (%d s)' % SEARCH_TIMEOUT)
            return 1
        print(p.stdout.strip())
        return 1 if _parse_fail(p.stdout) or p.returncode not in (0,) else 0
    finally:
        shutil.rmtree(scratch, ignore_errors=True)

""".vspec -> Verus unit file.

A .vspec is a Verus source file with holes.  Ordinary lines are copied.  A hole is

    //@extract fn NAME [impl=`REGEX`] [file=PATH]        (also struct/enum/const/type)
    //@  rule RID `PATTERN` => `REPLACEMENT` [min=N]
    //@  ret NAME                       name the result:  -> T   becomes   -> (NAME: T)
    //@  contract                       following lines are spliced between signature and body
    //@  at entry                       following lines are spliced after the opening brace
    //@  at loop K invariant|body-start|body-end|before|after
    //@  at before|after /REGEX/ [#N]   statement whose normalised text starts with REGEX
    //@  nocanary                       do not add the automatic reachability canaries
    //@end

Everything the hole emits is the item's text from /repo (located by name on every run), with the
unit's rewrite rules applied (each application logged) and the splices *inserted*.  Splices
are pure insertions: deleting the inserted spans from the output gives back the rewritten text,
which is checked here."""
import hashlib, os, re, shlex
from . import rscan
from .rscan import ScanError

R0_PATTERNS = [
    ('R0', 'tracing::debug!($E);', ''), ('R0', 'tracing::trace!($E);', ''),
    ('R0', 'tracing::debug!();', ''), ('R0', 'tracing::trace!();', ''),
    ('R0', 'tracing::warn!($E);', ''), ('R0', 'tracing::error!($E);', ''),
    ('R0', 'debug!($E);', ''), ('R0', 'trace!($E);', ''),
]

_RULE = re.compile(r'rule\s+(\S+)\s+`([^`]*)`\s*=>\s*`([^`]*)`\s*(.*)$')
_GHOST_OK = re.compile(r'^(proof\s*\{|broadcast\s+use\b|let\s+ghost\b|let\s+tracked\b|assert\b|assume\b|invariant\b|invariant_except_break\b|ensures\b|requires\b|decreases\b|recommends\b|opens_invariants\b|no_unwind\b|//)')

class Extract:
    def __init__(self, kind, name, impl, file, in_fn=None):
        self.kind, self.name, self.impl, self.file, self.in_fn = kind, name, impl, file, in_fn
        self.stub = False
        self.rules = []
        self.ret = None
        self.sections = []   # (anchor tuple, text)
        self.canary = True
        self.line = 0
    @property
    def qual(self):
        return self.name

class Unit:
    def __init__(self, name):
        self.name = name
        self.source = None
        self.rules = []
        self.parts = []     # ('text', str) | ('extract', Extract)
        self.verus_flags = []
        self.protect = []   # identifiers no rewrite rule may delete
        self.props = []

def _parse_rule(rest, lineno):
    m = _RULE.match(rest)
    if not m:
        raise ScanError('vspec line %d: bad rule syntax: %s' % (lineno, rest))
    opts = {}
    for kv in m.group(4).split():
        k, _, v = kv.partition('=')
        opts[k] = int(v)
    return (m.group(1), m.group(2), m.group(3), opts)

def parse(path):
    unit = Unit(os.path.splitext(os.path.basename(path))[0])
    cur = None
    sec = None
    buf = []
    def flush_text():
        nonlocal buf
        if buf:
            unit.parts.append(('text', ''.join(buf)))
            buf = []
    def flush_sec():
        nonlocal sec, buf
        if sec is not None:
            cur.sections.append((sec, ''.join(buf)))
        sec, buf = None, []
    def expand(pth, depth=0):
        out = []
        for ln in open(pth):
            st = ln.strip()
            if st.startswith('//@include ') and st.split()[1].endswith('.vinc'):
                # a .vinc file may itself contain directives: spliced in before parsing
                if depth > 4:
                    raise ScanError('include nesting too deep')
                out += expand(os.path.join(os.path.dirname(pth), st.split()[1]), depth + 1)
            else:
                out.append(ln)
        return out
    for lineno, line in enumerate(expand(path), 1):
        s = line.strip()
        if not s.startswith('//@'):
            if cur is not None and sec is None and s:
                raise ScanError('vspec line %d: text inside an extract block but outside a section' % lineno)
            buf.append(line)
            continue
        d = s[3:].strip()
        if cur is None:
            if d.startswith('unit '):
                unit.name = d.split()[1]
            elif d.startswith('source '):
                unit.source = d.split()[1]
            elif d.startswith('rule '):
                unit.rules.append(_parse_rule(d, lineno))
            elif d.startswith('verus-flag '):
                unit.verus_flags.append(d.split()[1])
            elif d.startswith('protect '):
                unit.protect += d.split()[1:]
            elif d.startswith('contract-of '):
                # //@contract-of UNIT FN [impl=`..`]: the verified contract of FN in another unit, as an assumed
                # (external_body) stub here; the other unit must be run by the same check
                flush_text()
                m = re.match(r'contract-of\s+(\w+)\s+(\w+)(.*)$', d)
                impl = re.search(r'impl=`([^`]*)`', m.group(3))
                other = parse(os.path.join(os.path.dirname(path), m.group(1) + '.vspec'))
                cands = [e for k, e in other.parts if k == 'extract' and e.kind == 'fn' and e.name == m.group(2)
                         and (impl is None or e.impl == impl.group(1))]
                if len(cands) != 1:
                    raise ScanError('vspec line %d: contract-of %s %s matched %d extracts' % (lineno, m.group(1), m.group(2), len(cands)))
                import copy
                ex = copy.copy(cands[0])
                ex.sections = [(sec, body) for sec, body in ex.sections if sec[0] == 'contract']
                ex.stub = True
                ex.canary = False
                ex.unit_rules = list(other.rules)
                ex.from_unit = other.name
                unit.parts.append(('extract', ex))
            elif d.startswith('include '):
                inc = os.path.join(os.path.dirname(path), d.split()[1])
                buf.append(open(inc).read())
            elif d.startswith('extract '):
                flush_text()
                m = re.match(r'extract\s+(fn|struct|enum|const|type|closure|arm)\s+(\w+)(.*)$', d)
                if not m:
                    raise ScanError('vspec line %d: bad extract' % lineno)
                rest = m.group(3)
                impl = re.search(r'impl=`([^`]*)`', rest)
                f = re.search(r'file=(\S+)', rest)
                inf = re.search(r'in_fn=(\w+)', rest)
                cur = Extract(m.group(1), m.group(2), impl.group(1) if impl else None, f.group(1) if f else unit.source,
                              inf.group(1) if inf else None)
                cur.line = lineno
                pat = re.search(r'pat=`([^`]*)`', rest)
                cur.pat = pat.group(1) if pat else None
                cur.wrap_ok = bool(re.search(r'wrap=ok', rest))
            elif d.startswith('#') or not d:
                pass
            else:
                raise ScanError('vspec line %d: unknown directive %s' % (lineno, d))
        else:
            if d == 'end':
                flush_sec()
                unit.parts.append(('extract', cur))
                cur = None
            elif d.startswith('rule '):
                flush_sec(); cur.rules.append(_parse_rule(d, lineno))
            elif d.startswith('ret '):
                flush_sec(); cur.ret = d.split()[1]
            elif d == 'nocanary':
                flush_sec(); cur.canary = False
            elif d == 'guarded-canaries':
                # for functions verified with #[verifier::loop_isolation(false)]: a refuted (then assumed) entry canary
                # would make the loop canaries vacuous; each canary gets its own guard condition instead
                flush_sec(); cur.guarded_canaries = True
            elif d == 'orsplit':
                flush_sec(); cur.orsplit = True
            elif d == 'needs-input':
                # the contract pins down more than the property states: a failure is only reported
                # together with a concrete failing input found on the real code
                flush_sec(); cur.needs_input = True
            elif d == 'contract':
                flush_sec(); sec = ('contract',)
            elif d.startswith('at '):
                flush_sec()
                a = d[3:].strip()
                m = re.match(r'loop\s+(\d+)\s+(invariant|body-start|body-end|before|after)$', a)
                if a == 'entry':
                    sec = ('entry',)
                elif a == 'each-arm-end':
                    # the same ghost text at the end of every arm of the first top-level `match` of the body
                    sec = ('eacharm',)
                elif m:
                    sec = ('loop', int(m.group(1)), m.group(2))
                else:
                    m = re.match(r'(before|after)\s+/(.*)/\s*(?:#(\d+))?$', a)
                    if not m:
                        raise ScanError('vspec line %d: bad anchor %s' % (lineno, a))
                    sec = ('stmt', m.group(1), m.group(2), int(m.group(3) or 0))
            elif d.startswith('#') or not d:
                pass
            else:
                raise ScanError('vspec line %d: unknown directive in extract: %s' % (lineno, d))
    if cur is not None:
        raise ScanError('vspec: unterminated extract block (line %d)' % cur.line)
    flush_text()
    return unit

def _strip_attrs(text, log, where):
    """R0: remove #[...] / #![...] attributes inside the item"""
    while True:
        toks = rscan.tokenize(text)
        for i, t in enumerate(toks):
            if t.kind == 'op' and t.text == '#':
                j = i + 1
                if j < len(toks) and toks[j].text == '!':
                    j += 1
                if j < len(toks) and toks[j].text == '[':
                    k = rscan.match_close(toks, j)
                    log.append(dict(rule='R0', where=where, before=text[t.a:toks[k].b], after=''))
                    text = text[:t.a] + text[toks[k].b:]
                    break
        else:
            return text

class Generated:
    def __init__(self):
        self.text = ''
        self.functions = []   # dict(name, kind, file, src_range, sha256, gen_range, splices=[(a,b,id,text)], canaries=[(a,b,id)])
        self.rule_log = []
        self.template_fns = []

def _anchor_id(sec):
    if sec[0] == 'contract': return 'contract'
    if sec[0] == 'entry': return 'entry'
    if sec[0] == 'eacharm': return 'each-arm-end'
    if sec[0] == 'loop': return 'loop%d.%s' % (sec[1], sec[2])
    return '%s/%s/#%d' % (sec[1], sec[2], sec[3])

import itertools
# every canary is guarded by its own uninterpreted condition: a refuted canary is then assumed false only under that
# condition and cannot make the canaries after it vacuous (matters for loops that are not isolated)
_CANARY_IDS = itertools.count()

def _canary_text(ex):
    if getattr(ex, 'guarded_canaries', False):
        return '\nproof { if canary_cond(%d) { assert(false); } } // canary\n' % next(_CANARY_IDS)
    return '\nproof { assert(false); } // canary\n'

def build_item(repo, unit, ex, canary, log):
    """returns (final_text, info) for one extract"""
    path = os.path.join(repo, ex.file)
    try:
        src = open(path).read()
    except OSError as e:
        raise ScanError('lost anchor: cannot read %s: %s' % (ex.file, e))
    where = '%s:%s' % (ex.file, ex.name)
    if ex.kind == 'closure':
        # R3 (lambda lifting): `let NAME = |PARAMS| { BODY };` inside fn `in_fn` becomes `fn NAME(PARAMS) -> _ { BODY }`;
        # the unit's rules then write out the parameter / return types inference leaves implicit and turn captured
        # variables into parameters
        outer = rscan.locate(src, dict(kind='fn', name=ex.in_fn, impl=ex.impl))
        a, b, params, body = rscan.find_let_closure(src, outer, ex.name)
        item = rscan.Item('closure', ex.name, a, b, None, None, a)
        orig = src[a:b]
        text = rscan.strip_comments('fn %s(%s) -> _ %s' % (ex.name, params, body))
        log.append(dict(rule='R3.closure', where=where, before='let %s = |%s| {..};' % (ex.name, ' '.join(params.split())), after='fn %s(..) -> _ {..}' % ex.name))
    elif ex.kind == 'arm':
        # R3 (arm lifting): the arm `PAT => { BODY }` of a match inside fn `in_fn` becomes `fn NAME() -> _ { BODY }`;
        # the unit's rules then make the variables the arm uses from its surroundings parameters and write out the
        # return type (`?` in the arm leaves the surrounding function)
        outer = rscan.locate(src, dict(kind='fn', name=ex.in_fn, impl=ex.impl))
        a, b, body = rscan.find_match_arm(src, outer, getattr(ex, 'pat', None) or '')
        item = rscan.Item('arm', ex.name, a, b, None, None, a)
        orig = src[a:b]
        if getattr(ex, 'wrap_ok', False):
            # the arm is a unit-valued block of a function that returns a Result: falling out of it means "no error"
            text = rscan.strip_comments('fn %s() -> _ { %s; Ok(()) }' % (ex.name, body))
        else:
            text = rscan.strip_comments('fn %s() -> _ %s' % (ex.name, body))
        log.append(dict(rule='R3.arm', where=where, before='%s => {..}' % ex.pat, after='fn %s() -> _ {..%s}' % (ex.name, '; Ok(())' if getattr(ex, 'wrap_ok', False) else '')))
    else:
        item = rscan.locate(src, dict(kind=ex.kind, name=ex.name, impl=ex.impl, in_fn=ex.in_fn))
        orig = src[item.start:item.end]
        text = rscan.strip_comments(orig)
    text = _strip_attrs(text, log, where)
    urules = ex.unit_rules if getattr(ex, 'stub', False) else unit.rules_for(ex)
    rules = [(r[0], r[1], r[2], None) for r in R0_PATTERNS] + ex.rules + urules  # item-level rules take priority
    prot = tuple(getattr(unit, 'protect', ()))
    text = rscan.apply_rules(text, rules, log, where, protect=prot)
    if getattr(ex, 'orsplit', False):
        text = rscan.split_or_arms(text, log, where)
        text = rscan.apply_rules(text, [(r[0], r[1], r[2], {k: v for k, v in (r[3] or {}).items() if k != 'min'}) for r in rules], log, where, protect=prot)
    rewritten = text
    inserts = []   # (offset, order, id, text)
    seq = 0
    lost = []
    if ex.kind in ('fn', 'closure', 'arm'):
        shape = rscan.FnShape(rewritten)
        toks = shape.toks
        if ex.ret:
            if shape.arrow_tok is None:
                raise ScanError('lost anchor: %s has no return type to name' % where)
            end_tok = shape.where_tok if shape.where_tok is not None else shape.body_open_tok
            inserts.append((toks[shape.arrow_tok].b, seq, 'ret', ' (%s: ' % ex.ret)); seq += 1
            inserts.append((toks[end_tok - 1].b, seq, 'ret', ')')); seq += 1
        for sec, body in ex.sections:
            sid = _anchor_id(sec)
            if sec[0] == 'contract':
                off = shape.body_open
            elif sec[0] == 'entry':
                off = shape.body_open + 1
            elif sec[0] == 'eacharm':
                try:
                    ends = shape.match_arm_ends()
                except ScanError as e:
                    lost.append('%s: %s' % (where, e))
                    continue
                for chunk in _top_level_chunks(body):
                    if not _GHOST_OK.match(chunk):
                        raise ScanError('vspec: splice %s in %s is not ghost-only: %s' % (sid, where, chunk[:60]))
                for n_arm, e_off in enumerate(ends):
                    # `;` closes a trailing expression statement of the arm (all arms are unit-valued blocks)
                    inserts.append((e_off, seq, '%s#%d' % (sid, n_arm), '\n; ' + body.rstrip('\n') + '\n')); seq += 1
                continue
            elif sec[0] == 'loop':
                if sec[1] >= len(shape.loops):
                    # the loop a ghost splice belongs to is gone: drop the splice (dropping ghost text can only
                    # make verification fail, never pass) and mark the unit degraded -- the check then needs a
                    # concrete failing input before it reports anything
                    lost.append('%s: no loop %d for splice %s' % (where, sec[1], sid))
                    continue
                lp = shape.loops[sec[1]]
                off = {'invariant': lp['open'], 'body-start': lp['open'] + 1, 'body-end': lp['close'],
                       'before': lp['start'], 'after': lp['end']}[sec[2]]
            else:
                try:
                    st = shape.find_stmt(sec[2], sec[3])
                except ScanError:
                    lost.append('%s: no statement matching /%s/ for splice %s' % (where, sec[2], sid))
                    continue
                off = st[0] if sec[1] == 'before' else st[1]
            if sec[0] != 'contract' and not (sec[0] == 'loop' and sec[2] == 'invariant'):
                for chunk in _top_level_chunks(body):
                    if not _GHOST_OK.match(chunk):
                        raise ScanError('vspec: splice %s in %s is not ghost-only: %s' % (sid, where, chunk[:60]))
            inserts.append((off, seq, sid, '\n' + body.rstrip('\n') + '\n')); seq += 1
        if canary and ex.canary and any(s[0] == 'contract' for s, _ in ex.sections):
            inserts.append((shape.body_open + 1, -1, 'canary:entry', _canary_text(ex)))
            for k, lp in enumerate(shape.loops):
                if any(s[0] == 'loop' and s[1] == k and s[2] == 'invariant' for s, _ in ex.sections):
                    inserts.append((lp['open'] + 1, -1, 'canary:loop%d' % k, _canary_text(ex)))
    elif ex.sections or ex.ret:
        raise ScanError('vspec: splices on non-fn item %s' % where)
    inserts.sort(key=lambda x: (x[0], x[1]))
    out = []
    spans = []
    pos = 0
    cur = 0
    for off, _, sid, body in inserts:
        out.append(rewritten[pos:off]); cur += off - pos; pos = off
        out.append(body)
        spans.append((cur, cur + len(body), sid, body))
        cur += len(body)
    out.append(rewritten[pos:])
    final = ''.join(out)
    final_full = final
    # integrity: removing inserted spans gives back the rewritten text byte for byte
    chk = []
    p = 0
    for a, b, _, _ in spans:
        chk.append(final[p:a]); p = b
    chk.append(final[p:])
    if ''.join(chk) != rewritten:
        raise ScanError('splice integrity check failed for ' + where)
    if getattr(ex, 'stub', False):
        # keep signature + contract, replace the body: an assumed contract (verified in unit ex.from_unit)
        bo = shape.body_open + sum(len(b) for off, _, _, b in inserts if off <= shape.body_open)
        pre = '#[verifier::external_body]\n'
        final = pre + final[:bo] + '{ unimplemented!() }'
        spans = [(a + len(pre), b + len(pre), 'assumed:' + sid, body) for a, b, sid, body in spans if b <= bo]
    info = dict(name=ex.name, kind=ex.kind, impl=ex.impl, file=ex.file, stub=getattr(ex, 'stub', False), lost_splices=lost,
                needs_input=getattr(ex, 'needs_input', False),
                from_unit=getattr(ex, 'from_unit', None),
                src_range=[item.start, item.end],
                src_line=src.count('\n', 0, item.start) + 1,
                sha256=hashlib.sha256(orig.encode()).hexdigest(),
                sha256_rewritten=hashlib.sha256(rscan.norm(rewritten).encode()).hexdigest(),
                spans=spans, rewritten=rewritten)
    return final, info

def _top_level_chunks(body):
    """split a splice body into top-level statements (for the ghost-only lint)"""
    toks = rscan.tokenize(body)
    chunks = []
    i = 0
    while i < len(toks):
        start = i
        first = toks[i]
        while i < len(toks):
            t = toks[i]
            if t.kind == 'op' and t.text in rscan.OPEN:
                i = rscan.match_close(toks, i)
                if t.text == '{' and first.text in ('proof',) :
                    i += 1
                    break
            elif t.kind == 'op' and t.text == ';':
                i += 1
                break
            i += 1
        chunks.append(body[toks[start].a:toks[min(i, len(toks)) - 1].b])
    return chunks

def _unit_rules_for(unit):
    def f(ex):
        return list(unit.rules)
    return f

def generate(repo, vspec_path, canary=False):
    unit = parse(vspec_path)
    unit.rules_for = _unit_rules_for(unit)
    g = Generated()
    g.unit = unit
    out = []
    cur = 0
    for kind, part in unit.parts:
        if kind == 'text':
            out.append(part); cur += len(part)
            continue
        final, info = build_item(repo, unit, part, canary, g.rule_log)
        info['gen_range'] = [cur, cur + len(final)]
        info['spans'] = [(a + cur, b + cur, sid, body) for a, b, sid, body in info['spans']]
        g.functions.append(info)
        out.append(final + '\n'); cur += len(final) + 1
    g.text = ''.join(out)
    if canary:
        # the guard conditions of the canaries (declared at the end of the verus! block so that no recorded span moves)
        k = g.text.rfind('} // verus!')
        if k < 0:
            raise ScanError('vspec: no `} // verus!` line to close the unit')
        g.text = g.text[:k] + 'uninterp spec fn canary_cond(k: int) -> bool;\n' + g.text[k:]
    return g

def locate_offset(g, off):
    """map a byte offset in the generated file to (function name or None, splice id or 'code' or 'template')"""
    for f in g.functions:
        a, b = f['gen_range']
        if a <= off < b:
            for sa, sb, sid, _ in f['spans']:
                if sa <= off < sb:
                    return f, sid
            return f, 'code'
    return None, 'template'

def enclosing_template_fn(text, off):
    """name of the fn (proof/spec/exec) in the template text that encloses offset `off`"""
    best = None
    for m in re.finditer(r'\bfn\s+(\w+)', text[:off]):
        best = m.group(1)
    return best

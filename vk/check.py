"""bin/check driver: decide one property on /repo's current working tree.

exit 0  property held on everything explored (KNOWN-FINDING lines allowed)
exit 1  VIOLATION property=<id> replay=<path> [no-failing-input-found]
exit 2  undecided (lost anchor, unsupported construct, rlimit, tool failure) -- never an alarm
"""
import argparse, subprocess, hashlib, json, os, shutil, sys, tempfile, time, concurrent.futures as cf
from . import verus as vverus
from . import kani as vkani
from . import replay as vreplay
from . import scans as vscans

VERIF = os.path.dirname(os.path.dirname(os.path.abspath(__file__)))
REPO = os.environ.get('VERIF_REPO', '/repo')

def load_props():
    return json.load(open(os.path.join(VERIF, 'specs', 'properties.json')))

def load_known():
    p = os.path.join(VERIF, 'known_findings.json')
    if not os.path.exists(p):
        return []
    return json.load(open(p)).get('findings', [])

def load_baseline(unit):
    p = os.path.join(VERIF, 'baseline', unit + '.json')
    if not os.path.exists(p):
        return None
    return json.load(open(p))

def matches_known(prop, fail, known):
    for k in known:
        if k.get('status') != 'open' or k.get('property') != prop:
            continue
        if k.get('unit') and k['unit'] != fail.get('unit'):
            continue
        if k.get('fn') and k['fn'] != fail.get('fn'):
            continue
        if k.get('kind') and k['kind'] != fail.get('kind'):
            continue
        if k.get('clause_contains') and k['clause_contains'] not in fail.get('clause', ''):
            continue
        if k.get('clause_any') and not any(c in fail.get('clause', '') for c in k['clause_any']):
            continue
        if k.get('harness') and k['harness'] != fail.get('harness'):
            continue
        if k.get('harness_contains') and k['harness_contains'] not in (fail.get('harness') or ''):
            continue
        return k
    return None

def sha(s):
    return hashlib.sha256(s.encode()).hexdigest()[:12]

def main(argv=None):
    ap = argparse.ArgumentParser()
    ap.add_argument('prop')
    ap.add_argument('--tier', default=os.environ.get('VERIF_TIER', 'quick'), choices=['quick', 'thorough'])
    ap.add_argument('--update-baseline', action='store_true')
    ap.add_argument('--keep', action='store_true', help='keep the scratch directory')
    ap.add_argument('--no-kani', action='store_true')
    ap.add_argument('--replay', help='re-run a replay file against the real code')
    args = ap.parse_args(argv)
    props = load_props()
    if args.prop not in props:
        print('unknown property', args.prop)
        return 2
    if args.replay:
        return vreplay.run_replay_file(REPO, args.replay)
    P = props[args.prop]
    seed = int(os.environ.get('VERIF_SEED', '0') or 0)
    t0 = time.time()
    scratch = tempfile.mkdtemp(prefix='caoverif-%s-' % args.prop, dir=os.environ.get('VERIF_SCRATCH', '/tmp'))
    rc = 2
    try:
        rc = _decide(args, P, seed, scratch, t0)
    finally:
        if not args.keep:
            shutil.rmtree(scratch, ignore_errors=True)
        else:
            print('scratch kept at', scratch)
    return rc

def _decide(args, P, seed, scratch, t0):
    prop = args.prop
    tier = args.tier
    known = load_known()
    # replay files of earlier runs of this property are stale
    rd = os.path.join(VERIF, 'evidence', 'replays')
    if os.path.isdir(rd):
        for f in os.listdir(rd):
            if f.startswith(prop + '-'):
                os.remove(os.path.join(rd, f))
    units = list(P.get('verus_units', []))
    if tier == 'thorough':
        units += P.get('verus_units_thorough', [])
    kani_groups = [] if args.no_kani else list(P.get('kani', {}).get(tier, P.get('kani', {}).get('quick', [])) if isinstance(P.get('kani'), dict) else [])
    results = []
    undecided = []
    failures = []
    # ---- Verus units (run concurrently; each also runs its canary twin)
    with cf.ThreadPoolExecutor(max_workers=6) as ex:
        futs = {}
        for u in units:
            spec = os.path.join(VERIF, 'specs', 'verus', u + '.vspec')
            futs[ex.submit(vverus.run_unit, REPO, spec, os.path.join(scratch, 'verus', u), P.get('rlimit', {}).get(u))] = u
        kfut = None
        if kani_groups:
            kfut = ex.submit(vkani.run_groups, REPO, VERIF, kani_groups, os.path.join(scratch, 'kani'), tier)
        for f in cf.as_completed(futs):
            results.append(f.result())
        kres = kfut.result() if kfut else None
    results.sort(key=lambda r: units.index(r.unit))
    obligations = 0
    discharged = 0
    known_not_counted = 0
    fn_list = []
    rule_apps = 0
    assumptions = set()
    smt_ms = 0
    samples = []
    for r in results:
        base = load_baseline(r.unit)
        # obligations that fail on the pinned tree because of a recorded, unrepaired defect (known_findings.json, open):
        # reported as KNOWN-FINDING, never counted as discharged, and not an obstacle to the baseline
        kf = [fl for fl in r.failures if fl['in_extracted_fn'] and matches_known(prop, fl, known)]
        r.failures = [fl for fl in r.failures if not any(fl is x for x in kf)]
        failures += kf
        kf_fns = len(set((fl['fn'], fl.get('gen_offset')) for fl in kf))
        if args.update_baseline and not r.failures and not r.undecided:
            os.makedirs(os.path.join(VERIF, 'baseline'), exist_ok=True)
            ok_fns = sorted(k for k, v in r.fn_breakdown.items() if v.get('success'))
            json.dump(dict(unit=r.unit, verified=r.verified, functions_ok=ok_fns,
                           extracted={f['name']: f['sha256_rewritten'] for f in r.functions}),
                      open(os.path.join(VERIF, 'baseline', r.unit + '.json'), 'w'), indent=1, sort_keys=True)
            base = load_baseline(r.unit)
        changed = base is not None and not all(base['extracted'].get(f['name']) == f['sha256_rewritten'] for f in r.functions)
        no_verdict = r.undecided and not r.degraded
        tie_broken = False
        if no_verdict and changed and not r.failures:
            # the solver ran out of resources on changed code, or the changed code no longer fits the unit
            # (type error in the generated text, construct Verus rejects): undecided, unless the real code can be
            # shown to misbehave on a concrete input
            try:
                cex = vreplay.search_unit(REPO, scratch, r.unit, seed)
            except Exception as e:
                cex = None
                undecided.append('%s: counterexample search failed: %s' % (r.unit, e))
            if cex:
                tie_broken = True
                failures.append(dict(backend='verus', unit=r.unit, fn='?', kind='undischarged',
                                     clause='no verdict from the verifier on changed code (%s); failing input found on the real code' % ('resource limit' if all(u.startswith('rlimit/timeout') for u in r.undecided) else 'the changed code does not fit the unit'),
                                     obligation='%s::undischarged(no verdict on changed code)::failing input found' % r.unit,
                                     message=r.undecided[0][:300], rendered='\n'.join(r.undecided), in_extracted_fn=True,
                                     failing_input=cex))
        if r.degraded and (r.failures or r.undecided):
            # splice anchors were lost (the code was restructured): the failing obligations may be an artefact
            # of the missing ghost text, so nothing is reported without a concrete failing input
            try:
                cex = vreplay.search_unit(REPO, scratch, r.unit, seed)
            except Exception as e:
                cex = None
                undecided.append('%s: counterexample search failed: %s' % (r.unit, e))
            if cex:
                tie_broken = True
                fl0 = r.failures[0] if r.failures else dict(fn='?', obligation=r.unit + '::undischarged', message='', rendered='')
                failures.append(dict(backend='verus', unit=r.unit, fn=fl0.get('fn'), kind='undischarged',
                                     clause='proof anchors lost on restructured code (%s); failing input found on the real code' % '; '.join(r.degraded)[:200],
                                     obligation='%s::%s::undischarged(restructured code)::failing input found' % (r.unit, fl0.get('fn')),
                                     message=fl0.get('message', ''), rendered=fl0.get('rendered', ''), in_extracted_fn=True,
                                     failing_input=cex))
            else:
                undecided.append('%s: splice anchors lost (%s) and no failing input found' % (r.unit, '; '.join(r.degraded)[:300]))
                tie_broken = True
            r.failures = []
            r.undecided = []
        if not tie_broken:
            for u in r.undecided:
                undecided.append('%s: %s' % (r.unit, u))
        if base is None:
            undecided.append('%s: no committed baseline' % r.unit)
        else:
            if not r.failures and not r.undecided and r.verified < base['verified']:
                undecided.append('%s: verified %d < baseline %d (obligations lost)' % (r.unit, r.verified, base['verified']))
            unchanged = all(base['extracted'].get(f['name']) == f['sha256_rewritten'] for f in r.functions)
            for fl in r.failures:
                if not fl['in_extracted_fn']:
                    # a ghost lemma of the spec itself failed: cannot be caused by /repo's code
                    # unless an extracted spec-relevant item changed; treat as undecided
                    undecided.append('%s: proof-internal lemma %s failed (%s)' % (r.unit, fl['fn'], fl['message']))
                    continue
                if unchanged:
                    undecided.append('%s: %s failed although every extracted item is byte-identical to the baseline (solver instability)' % (r.unit, fl['obligation']))
                    continue
                ni = [f for f in r.functions if f.get('needs_input') and f['name'] == fl['fn'] and f['gen_range'][0] <= fl.get('gen_offset', -1) < f['gen_range'][1]]
                if ni:
                    try:
                        cex = vreplay.search_unit(REPO, scratch, r.unit, seed)
                    except Exception as e:
                        cex = None
                    if not cex:
                        undecided.append('%s: %s failed, but this contract is stronger than the property and no failing input was found on the real code' % (r.unit, fl['obligation']))
                        continue
                    fl = dict(fl, failing_input=cex)
                failures.append(fl)
        n_ob = r.verified + max(0, r.errors - kf_fns)
        known_not_counted += min(kf_fns, r.errors)
        obligations += n_ob
        discharged += r.verified
        smt_ms += r.smt_ms
        rule_apps += len(r.rule_log)
        for a in r.assumptions:
            assumptions.add('%s: %s' % (r.unit, a))
        for f in r.functions:
            fn_list.append(dict(unit=r.unit, item='%s %s' % (f['kind'], f['name']), file=f['file'], line=f['src_line'],
                                role='contract imported from unit %s' % f.get('from_unit') if f.get('stub') else 'verified here',
                                byte_range=f['src_range'], sha256=f['sha256'][:16],
                                splices=[s[2] for s in f['spans']]))
        for f in r.functions[:]:
            for a, b, sid, body in f['spans']:
                if sid == 'contract' and len(samples) < 6:
                    samples.append(dict(unit=r.unit, fn=f['name'], contract=' '.join(body.split())[:400]))
                    break
    # ---- thorough tier extras: proof stability under other solver seeds, and a long run of the replay
    # drivers (exploration only: reported separately, never counted as proved)
    stability = []
    exploration = []
    if tier == 'thorough' and not failures and not undecided:
        for r in results:
            spec = os.path.join(VERIF, 'specs', 'verus', r.unit + '.vspec')
            for k in (1, 2):
                rs = vverus.run_unit(REPO, spec, os.path.join(scratch, 'verus-seed%d' % k, r.unit), P.get('rlimit', {}).get(r.unit),
                                     with_canary=False, smt_seed=seed * 7 + k * 13 + 1)
                stability.append(dict(unit=r.unit, smt_random_seed=seed * 7 + k * 13 + 1, verified=rs.verified, errors=rs.errors,
                                      stable=(not rs.failures and not rs.undecided and rs.verified == r.verified)))
        seen = set()
        for r in results:
            for drv in vreplay.UNIT_MAP.get(r.unit, []):
                if drv in seen:
                    continue
                seen.add(drv)
                try:
                    n, cex = vreplay.explore(REPO, scratch, drv, seed, 200000)
                except Exception as e:
                    exploration.append(dict(driver=drv, error=str(e)))
                    continue
                exploration.append(dict(driver=drv, sequences=n, failing_input=cex))
                if cex:
                    failures.append(dict(backend='replay', unit=r.unit, fn='?', kind='replay', clause=cex.get('observed', ''),
                                         obligation='replay::%s::model difference on the real code' % drv, message='replay driver found a difference',
                                         rendered=json.dumps(cex), in_extracted_fn=True, failing_input=cex))
    scan_results = []
    for sc in P.get('scans', []):
        try:
            sr = vscans.SCANS[sc](REPO)
        except Exception as e:
            undecided.append('scan %s failed to run: %s' % (sc, e))
            continue
        scan_results.append(sr)
        obligations += 1
        if sr['findings']:
            # one violation per scan: the obligation is the scan's statement, the failing sites are its input
            fds = sr['findings']
            failures.append(dict(backend='scan', unit='scan:' + sc, fn=str(fds[0].get('fn')), kind='scan', harness=None,
                                 clause='%d site(s), first %s:%s %s' % (len(fds), fds[0]['file'], fds[0]['line'], fds[0]['text']),
                                 obligation='scan::%s::%s' % (sc, sr['statement'][:160]),
                                 message=sr['statement'], rendered=json.dumps(fds[:80], indent=1), in_extracted_fn=True,
                                 failing_input=dict(sites=fds[:80], count=len(fds))))
        else:
            discharged += 1
        assumptions.add('scan %s is syntactic: %s' % (sc, sr['statement']))
    kani_ev = None
    if kres is not None:
        kani_ev = kres.evidence()
        for u in kres.undecided:
            undecided.append('kani: ' + u)
        failures += kres.failures
        for a in kres.assumptions:
            assumptions.add('kani: ' + a)
    # ---- findings / violations
    out_lines = []
    viol = []
    known_hit = []
    seen_ob = set()
    for fl in failures:
        # one obligation refuted at several exits of a function is one violation
        if fl['obligation'] in seen_ob:
            continue
        seen_ob.add(fl['obligation'])
        k = matches_known(prop, fl, known)
        if k:
            known_hit.append((k, fl))
        else:
            viol.append(fl)
    replay_dir = os.path.join(VERIF, 'evidence', 'replays')
    printed_known = set()
    for k, fl in known_hit:
        if id(k) in printed_known:
            continue
        printed_known.add(id(k))
        note = ''
        rp = k.get('replay')
        if rp:
            # re-run the recorded failing input against the tree under check
            try:
                exe = vreplay.build(REPO, scratch)
                pr = subprocess.run([exe, rp['driver'], 'replay', str(rp.get('variant', 0)), rp['ops']], capture_output=True, text=True, timeout=600)
                note = ' [replayed on this tree: %s]' % ('reproduces' if 'FAIL ' in pr.stdout else 'does NOT reproduce: ' + pr.stdout.strip()[:120])
            except Exception as e:
                note = ' [replay could not run: %s]' % str(e)[:120]
        print('KNOWN-FINDING: property=%s %s%s' % (prop, k.get('what', fl['obligation']), note))
    rc = 0
    if viol:
        os.makedirs(replay_dir, exist_ok=True)
        for fl in viol:
            path = os.path.join(replay_dir, '%s-%s.json' % (prop, sha(fl['obligation'])))
            rep = dict(property=prop, obligation=fl['obligation'], unit=fl.get('unit'), function=fl.get('fn'),
                       kind=fl.get('kind'), clause=fl.get('clause'), verifier_message=fl.get('message'),
                       verifier_output=fl.get('rendered'), backend=fl.get('backend', 'verus'),
                       failing_input=fl.get('failing_input'))
            found = fl.get('failing_input') is not None
            if fl.get('backend') == 'scan' and fl.get('unit') in vreplay.UNIT_MAP and not undecided:
                # a scan names source sites; also look for an input that shows the consequence on the real code
                try:
                    cex = vreplay.search_unit(REPO, scratch, fl['unit'], seed)
                except Exception as e:
                    cex = None
                if cex:
                    rep['failing_input'] = dict(fl['failing_input'], **cex)
            if not found and not undecided:
                try:
                    cex = vreplay.search_counterexample(REPO, VERIF, fl, scratch, seed)
                except Exception as e:  # the finder is best effort
                    cex = None
                    rep['counterexample_search_error'] = str(e)
                if cex:
                    rep['failing_input'] = cex
                    found = True
            json.dump(rep, open(path, 'w'), indent=1)
            print('VIOLATION property=%s replay=%s%s' % (prop, path, '' if found else ' no-failing-input-found'))
            print('  obligation: %s' % fl['obligation'])
        rc = 1
    if undecided and rc == 0:
        for u in undecided:
            print('UNDECIDED property=%s %s' % (prop, u))
        rc = 2
    elif undecided:
        for u in undecided:
            print('note: also undecided: %s' % u)
    # ---- evidence
    wall = time.time() - t0
    cov = dict(
        obligations=obligations + (kani_ev['complete_checks'] if kani_ev else 0),
        discharged=discharged + (kani_ev['complete_checks_ok'] if kani_ev else 0),
        checker_cmd='; '.join([r.cmd for r in results][:1] + ([kani_ev['cmd']] if kani_ev else [])),
        trusted_base=P.get('trusted_base', []) + ['Verus 0.2026.09.13 + Z3', 'rustc', 'vk extractor and its rewrite rules (logged per run)'] + (['Kani 0.68 + CBMC 6.11 + kissat'] if kani_ev else []),
        verus=dict(units=[dict(unit=r.unit, verified=r.verified, errors=r.errors, smt_ms=r.smt_ms, total_ms=r.total_ms,
                               canaries=r.canaries, canaries_refuted=r.canaries_failed_as_expected,
                               contract_splices=r.n_contract_clauses, rule_applications=len(r.rule_log),
                               wall_s=round(r.wall_s, 2)) for r in results],
                   obligations=obligations, discharged=discharged, solver_ms=smt_ms,
                   note='obligation = one function/lemma-level SMT query set reported by verus --output-json'),
        functions_under_contract=fn_list,
        rewrite_rule_applications=[dict(unit=r.unit, **l) for r in results for l in r.rule_log][:200],
        samples=samples + (kani_ev['samples'] if kani_ev else []),
        undecided=undecided,
        known_findings_hit=[k.get('what') for k, _ in known_hit],
        known_finding_obligations_not_counted=known_not_counted,
        scans=[dict(name=x['name'], sites=x['sites'], findings=len(x['findings'])) for x in scan_results],
        proof_stability=stability,
        exploration_not_counted=exploration,
        claim=P.get('claim'),
        not_claimed=P.get('not_claimed'),
    )
    if kani_ev:
        cov['kani'] = kani_ev
        cov['bounded_obligations'] = kani_ev['bounded']
    ev = dict(property_id=prop, tier=tier, seed=seed, level=P.get('level', 'proof'), coverage=cov,
              assumptions=sorted(assumptions) + P.get('assumptions', []), wall_s=round(wall, 2), violations=len(viol))
    os.makedirs(os.path.join(VERIF, 'evidence'), exist_ok=True)
    if not (args.no_kani and P.get('kani')):
        # --no-kani is a developer shortcut: it must not replace the evidence of a full run
        json.dump(ev, open(os.path.join(VERIF, 'evidence', prop + '.json'), 'w'), indent=1)
    print('%s %s: verus %d/%d obligations discharged in %d units%s; wall %.1fs; exit %d' % (
        prop, tier, discharged, obligations, len(results),
        ('; kani %d/%d complete checks, %d bounded' % (kani_ev['complete_checks_ok'], kani_ev['complete_checks'], len(kani_ev['bounded']))) if kani_ev else '',
        wall, rc))
    return rc

if __name__ == '__main__':
    sys.exit(main())
